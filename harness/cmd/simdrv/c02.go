package main

// C02 — a transition succeeds iff every critical task acknowledged it.
// Fault enumeration over (workflow shape × transition × per-task outcome) in a
// whole-core simulation; oracle = reference table from the statement.

import (
	"encoding/json"
	"fmt"
	"os"
	"strings"
	"sync/atomic"
	"time"

	pb "github.com/AliceO2Group/Control/core/protos"
	"github.com/mesos/mesos-go/api/v1/lib/scheduler"

	"verif/harness/coresim"
	simmesos "verif/harness/sim/mesos"
	"verif/harness/vlib"
)

type c02Task struct {
	Name     string `json:"name"`
	Critical bool   `json:"critical"`
	Mode     string `json:"mode"`
	Host     int    `json:"host"`
	Outcome  string `json:"outcome"` // for the transition under test
}

type c02Scenario struct {
	Transition string    `json:"transition"` // DEPLOY CONFIGURE START_ACTIVITY STOP_ACTIVITY RESET
	Tasks      []c02Task `json:"tasks"`
	Hosts      int       `json:"hosts"`
	// Special: "silent-hook-task" = a non-critical hook task triggered at before_<transition> accepts the trigger
	// and never answers; every task of the transition itself acknowledges (own driver: c02SilentHook)
	Special string `json:"special,omitempty"`
}

var c02TaskEvent = map[string]string{"CONFIGURE": "CONFIGURE", "START_ACTIVITY": "START", "STOP_ACTIVITY": "STOP", "RESET": "RESET"}
var c02Dst = map[string]string{"DEPLOY": "DEPLOYED", "CONFIGURE": "CONFIGURED", "START_ACTIVITY": "RUNNING", "STOP_ACTIVITY": "CONFIGURED", "RESET": "DEPLOYED"}
var c02Modes = []string{"direct", "basic", "fairmq"}

func (sc c02Scenario) expectSuccess() bool {
	for _, t := range sc.Tasks {
		if t.Critical && t.Outcome != "ok" && t.Outcome != "offer-late" {
			return false
		}
	}
	return true
}

func (sc c02Scenario) class() string {
	if sc.Special != "" {
		return sc.Transition + "/" + sc.Special
	}
	// canonical: transition, number of tasks, and the sorted multiset of (crit, outcome) of non-ok tasks
	var parts []string
	for _, t := range sc.Tasks {
		if t.Outcome != "ok" {
			k := "noncrit"
			if t.Critical {
				k = "crit"
			}
			parts = append(parts, k+":"+t.Outcome)
		}
	}
	nCrit := 0
	for _, t := range sc.Tasks {
		if t.Critical {
			nCrit++
		}
	}
	return fmt.Sprintf("%s/tasks=%d,crit=%d/%s", sc.Transition, len(sc.Tasks), nCrit, strings.Join(sortedCopy(parts), "+"))
}

func sortedCopy(xs []string) []string {
	out := append([]string(nil), xs...)
	for i := 1; i < len(out); i++ {
		for j := i; j > 0 && out[j] < out[j-1]; j-- {
			out[j], out[j-1] = out[j-1], out[j]
		}
	}
	return out
}

func c02Scenarios(c *vlib.Ctx) []c02Scenario {
	var out []c02Scenario
	// "undeliverable" (the master refuses the MESSAGE call) makes mesos-go drop and re-establish
	// the subscription (any failed call does); replies of other targets sent meanwhile are lost and
	// time out after the code's own 90/120 s, so it is a long scenario like silent and die.
	cmdOutcomes := []string{"error-stay", "error-to-error"}
	depOutcomes := []string{"staging-failed", "never-running", "no-offer"}
	if c.Tier == "thorough" {
		cmdOutcomes = append(cmdOutcomes, "silent", "die", "undeliverable")
	}
	transitions := []string{"DEPLOY", "CONFIGURE", "START_ACTIVITY", "STOP_ACTIVITY", "RESET"}
	// 0-task and all-ok shapes
	for _, tr := range transitions {
		out = append(out, c02Scenario{Transition: tr, Hosts: 1})
		for n := 1; n <= 3; n++ {
			sc := c02Scenario{Transition: tr, Hosts: 2}
			for i := 0; i < n; i++ {
				sc.Tasks = append(sc.Tasks, c02Task{Name: fmt.Sprintf("t%d", i), Critical: i%2 == 0, Mode: c02Modes[i%3], Host: 1 + i%2, Outcome: "ok"})
			}
			out = append(out, sc)
		}
	}
	// single fault: victim critical or not, alone / with a critical bystander / with a non-critical bystander / with both
	for _, tr := range transitions {
		outs := cmdOutcomes
		if tr == "DEPLOY" {
			outs = depOutcomes
		}
		for _, oc := range outs {
			for _, vcrit := range []bool{true, false} {
				for shape := 0; shape < 4; shape++ {
					if c.Tier != "thorough" && shape == 3 {
						continue
					}
					sc := c02Scenario{Transition: tr, Hosts: 2}
					sc.Tasks = append(sc.Tasks, c02Task{Name: "victim", Critical: vcrit, Mode: c02Modes[(shape+len(oc))%3], Host: 1, Outcome: oc})
					if shape == 1 || shape == 3 {
						sc.Tasks = append(sc.Tasks, c02Task{Name: "bc", Critical: true, Mode: "direct", Host: 2, Outcome: "ok"})
					}
					if shape == 2 || shape == 3 {
						sc.Tasks = append(sc.Tasks, c02Task{Name: "bn", Critical: false, Mode: "basic", Host: 2, Outcome: "ok"})
					}
					out = append(out, sc)
				}
			}
		}
	}
	// the first offers round cannot place a critical task (its agent is not offered yet), the round of the
	// next deployment attempt can: the task becomes active well in time, the creation must succeed
	out = append(out,
		c02Scenario{Transition: "DEPLOY", Hosts: 2, Tasks: []c02Task{{Name: "victim", Critical: true, Mode: "direct", Host: 1, Outcome: "offer-late"}}},
		c02Scenario{Transition: "DEPLOY", Hosts: 2, Tasks: []c02Task{{Name: "victim", Critical: true, Mode: "fairmq", Host: 1, Outcome: "offer-late"}, {Name: "bc", Critical: true, Mode: "direct", Host: 2, Outcome: "ok"}, {Name: "bn", Critical: false, Mode: "basic", Host: 2, Outcome: "ok"}}},
	)
	// a non-critical hook task that never answers its trigger (the trigger's own 90 s timeout expires): a
	// failure confined to a non-critical hook, every task acknowledges the transition itself
	out = append(out, c02Scenario{Transition: "START_ACTIVITY", Hosts: 2, Special: "silent-hook-task", Tasks: []c02Task{{Name: "t0", Critical: true, Mode: "direct", Host: 1, Outcome: "ok"}, {Name: "t1", Critical: false, Mode: "basic", Host: 2, Outcome: "ok"}}})
	// long scenarios that are part of every tier (the code's own 90/120 s command timeouts expire; they
	// run side by side): a silent target, and a target whose executor is lost just before the request
	// (the task has lost its executor id, the environment has not noticed yet)
	if c.Tier != "thorough" {
		out = append(out,
			c02Scenario{Transition: "START_ACTIVITY", Hosts: 2, Tasks: []c02Task{{Name: "victim", Critical: false, Mode: "direct", Host: 1, Outcome: "silent"}}},
			c02Scenario{Transition: "CONFIGURE", Hosts: 2, Tasks: []c02Task{{Name: "victim", Critical: false, Mode: "fairmq", Host: 1, Outcome: "silent"}}},
			c02Scenario{Transition: "STOP_ACTIVITY", Hosts: 2, Tasks: []c02Task{{Name: "victim", Critical: true, Mode: "direct", Host: 1, Outcome: "silent"}, {Name: "bn", Critical: false, Mode: "basic", Host: 2, Outcome: "ok"}}},
			c02Scenario{Transition: "START_ACTIVITY", Hosts: 2, Tasks: []c02Task{{Name: "victim", Critical: true, Mode: "direct", Host: 1, Outcome: "exec-lost-before"}, {Name: "bc", Critical: true, Mode: "direct", Host: 2, Outcome: "ok"}}},
			c02Scenario{Transition: "STOP_ACTIVITY", Hosts: 2, Tasks: []c02Task{{Name: "victim", Critical: true, Mode: "fairmq", Host: 1, Outcome: "exec-lost-before"}, {Name: "bc", Critical: true, Mode: "direct", Host: 2, Outcome: "ok"}, {Name: "bn", Critical: false, Mode: "basic", Host: 2, Outcome: "ok"}}},
			// the same with the task manager's own bookkeeping of the failure held up (delay point at the
			// start of its goroutine): the task has lost its executor id but its role is still active
			c02Scenario{Transition: "START_ACTIVITY", Hosts: 2, Tasks: []c02Task{{Name: "victim", Critical: true, Mode: "direct", Host: 1, Outcome: "exec-lost-racing"}, {Name: "bc", Critical: true, Mode: "direct", Host: 2, Outcome: "ok"}}},
			// a critical target dies (TASK_FAILED) on receiving the command and never answers, next to one that acknowledges
			c02Scenario{Transition: "CONFIGURE", Hosts: 2, Tasks: []c02Task{{Name: "victim", Critical: true, Mode: "direct", Host: 1, Outcome: "die"}, {Name: "bc", Critical: true, Mode: "direct", Host: 2, Outcome: "ok"}}},
			// the only task of the workflow loses its executor: nothing is left to command
			c02Scenario{Transition: "START_ACTIVITY", Hosts: 2, Tasks: []c02Task{{Name: "victim", Critical: true, Mode: "direct", Host: 1, Outcome: "exec-lost-before"}}},
			// a silent non-critical target next to a critical one that acknowledges (a multi-target command)
			c02Scenario{Transition: "START_ACTIVITY", Hosts: 2, Tasks: []c02Task{{Name: "victim", Critical: false, Mode: "basic", Host: 1, Outcome: "silent"}, {Name: "bc", Critical: true, Mode: "direct", Host: 2, Outcome: "ok"}}},
			// Mesos reports the task unreachable (its agent is partitioned away) 80 ms before the request
			c02Scenario{Transition: "START_ACTIVITY", Hosts: 2, Tasks: []c02Task{{Name: "victim", Critical: true, Mode: "direct", Host: 1, Outcome: "reported-unreachable"}, {Name: "bc", Critical: true, Mode: "direct", Host: 2, Outcome: "ok"}}},
			// the task itself dies (TASK_FAILED) 80 ms before the request
			c02Scenario{Transition: "START_ACTIVITY", Hosts: 2, Tasks: []c02Task{{Name: "victim", Critical: true, Mode: "fairmq", Host: 1, Outcome: "task-failed-before"}, {Name: "bc", Critical: true, Mode: "direct", Host: 2, Outcome: "ok"}}},
			c02Scenario{Transition: "STOP_ACTIVITY", Hosts: 2, Tasks: []c02Task{{Name: "victim", Critical: true, Mode: "direct", Host: 1, Outcome: "task-failed-before"}, {Name: "bn", Critical: false, Mode: "basic", Host: 2, Outcome: "ok"}}},
			c02Scenario{Transition: "RESET", Hosts: 2, Tasks: []c02Task{{Name: "victim", Critical: true, Mode: "direct", Host: 1, Outcome: "task-failed-before"}, {Name: "bc", Critical: true, Mode: "fairmq", Host: 2, Outcome: "ok"}}},
		)
	} else {
		for _, tr := range []string{"START_ACTIVITY", "STOP_ACTIVITY", "RESET"} {
			for _, vcrit := range []bool{true, false} {
				for shape := 0; shape <= 3; shape++ {
					sc := c02Scenario{Transition: tr, Hosts: 2}
					oc := "exec-lost-before"
					if shape == 3 {
						oc = "exec-lost-racing"
					}
					if shape == 2 {
						oc = "task-failed-before"
					}
					if shape == 1 && tr != "START_ACTIVITY" {
						oc = "reported-unreachable"
					}
					sc.Tasks = append(sc.Tasks, c02Task{Name: "victim", Critical: vcrit, Mode: c02Modes[shape%3], Host: 1, Outcome: oc})
					if shape == 1 || shape == 3 {
						sc.Tasks = append(sc.Tasks, c02Task{Name: "bc", Critical: true, Mode: "direct", Host: 2, Outcome: "ok"})
					}
					if shape == 2 || shape == 3 {
						sc.Tasks = append(sc.Tasks, c02Task{Name: "bn", Critical: false, Mode: "basic", Host: 2, Outcome: "ok"})
					}
					out = append(out, sc)
				}
			}
		}
	}
	// double faults (seeded sample; thorough: all pairs of outcomes on a 3-task shape)
	r := c.SubRand(777)
	nPairs := 12
	if c.Tier == "thorough" {
		nPairs = 150
	}
	for k := 0; k < nPairs; k++ {
		tr := transitions[r.Intn(len(transitions))]
		outs := []string{"error-stay", "error-to-error"}
		if tr == "DEPLOY" {
			outs = depOutcomes
		}
		sc := c02Scenario{Transition: tr, Hosts: 2}
		for i := 0; i < 3; i++ {
			oc := "ok"
			if i < 2 {
				oc = outs[r.Intn(len(outs))]
			}
			sc.Tasks = append(sc.Tasks, c02Task{Name: fmt.Sprintf("t%d", i), Critical: r.Intn(2) == 0, Mode: c02Modes[r.Intn(3)], Host: 1 + r.Intn(2), Outcome: oc})
		}
		out = append(out, sc)
	}
	return c02SpreadLong(out, c.NBatch)
}

func (sc c02Scenario) long() bool {
	if sc.Special != "" {
		return true
	}
	for _, t := range sc.Tasks {
		switch t.Outcome {
		case "silent", "die", "undeliverable", "exec-lost-before", "exec-lost-racing", "task-failed-before", "reported-unreachable":
			return true
		}
	}
	return false
}

// c02SpreadLong reorders the scenarios so that every batch (a contiguous slice) gets an equal share
// of the scenarios in which the code's own 90/120 s timeouts expire, and starts with them.
func c02SpreadLong(all []c02Scenario, nb int) []c02Scenario {
	if nb <= 1 {
		return all
	}
	var long, short []c02Scenario
	for _, sc := range all {
		if sc.long() {
			long = append(long, sc)
		} else {
			short = append(short, sc)
		}
	}
	n := len(all)
	per := (n + nb - 1) / nb
	res := make([]c02Scenario, 0, n)
	for b := 0; b < nb && len(res) < n; b++ {
		size := per
		if n-len(res) < size {
			size = n - len(res)
		}
		share := len(long) / (nb - b)
		if len(long)%(nb-b) != 0 {
			share++
		}
		if share > size {
			share = size
		}
		res = append(res, long[:share]...)
		long = long[share:]
		k := size - share
		if k > len(short) {
			k = len(short)
		}
		res = append(res, short[:k]...)
		short = short[k:]
		for len(res) < (b+1)*per && len(res) < n && len(long) > 0 {
			res = append(res, long[0])
			long = long[1:]
		}
	}
	res = append(res, long...)
	res = append(res, short...)
	return res
}

// c02DeployTimeout: short only where the scenario needs the timeout to expire.
func c02DeployTimeout(sc c02Scenario) string {
	if sc.Transition == "DEPLOY" {
		for _, t := range sc.Tasks {
			if t.Outcome == "never-running" || t.Outcome == "staging-failed" || t.Outcome == "no-offer" {
				return "5s"
			}
		}
	}
	return "60s"
}

// stuckClientSignature is what the core logs every 15 s once the vendored mesos-go scheduler client
// (httpcli/httpsched/state.go) has lost its subscription but still believes to be connected: a regular
// call that was in flight when the subscription ended puts the "connected" phase back after the
// disconnection was recorded (anyCall returns connectedPhase unconditionally), every later SUBSCRIBE is
// refused locally with this error, and the core never hears from Mesos again.
const stuckClientSignature = "already subscribed, cannot re-issue a SUBSCRIBE call"
const stuckClientExplanation = "'subscription terminated: already subscribed, cannot re-issue a SUBSCRIBE call' every 15 s — the scheduler client believes it is connected although its event stream is gone, no SUBSCRIBE ever reaches the master, and whatever waits for a status update (here the acknowledgement of a KILL) waits for ever"

func runC02() {
	c := vlib.Start("C02")
	defer c.Finish()
	scs := c02Scenarios(c)
	lo, hi := c.Slice(len(scs))
	if only := os.Getenv("VERIF_ONLY"); only != "" {
		fmt.Sscan(only, &lo)
		hi = lo + 1
	}
	par := 3
	parallel(lo, hi, par, func(i int) { c02Run(c, i, scs[i]) })
}

type c02Obs struct {
	Goroutines string      `json:"blocked_goroutines,omitempty"`
	CoreLog    string      `json:"core_log_tail,omitempty"`
	Scenario   c02Scenario `json:"scenario"`
	Index      int         `json:"index"`
	Steps      []string    `json:"steps"`
	Err        string      `json:"err"`
	ReplyState string      `json:"reply_state"`
	AfterState string      `json:"after_state"`
	DstEvents  int         `json:"dst_state_events"`
	Commands   []string    `json:"commands"`
}

func c02Run(c *vlib.Ctx, idx int, sc c02Scenario) {
	id := c.Case(map[string]interface{}{"index": idx, "scenario": sc})
	if idx%17 == 3 {
		c.Sample(sc)
	}
	c.Nontrivial(vlib.Hash("c02", sc.class()))
	if sc.Special == "silent-hook-task" {
		c02SilentHook(c, idx, id, sc)
		return
	}
	wfName := fmt.Sprintf("c02w%d", idx)
	wf := coresim.WorkflowSpec{Name: wfName, Hosts: []string{"host1"}, Defaults: map[string]string{"deploy_timeout": c02DeployTimeout(sc)}}
	byName := map[string]c02Task{}
	for _, t := range sc.Tasks {
		byName[t.Name] = t
		wf.Tasks = append(wf.Tasks, coresim.TaskSpec{Name: t.Name, Host: fmt.Sprintf("host%d", t.Host), Critical: t.Critical, Mode: t.Mode})
	}
	if len(sc.Tasks) == 0 {
		// a workflow with nothing to command: one call role keeps the tree non-empty
		wf.Calls = append(wf.Calls, coresim.CallSpec{Name: "noop", Func: "verif.Probe()", Trigger: "before_START_ACTIVITY", Critical: false})
	}
	agents := stdAgents(sc.Hosts + 1)
	// "no-offer": the victim's host is host3, which exists in no offer
	for i, t := range sc.Tasks {
		if sc.Transition == "DEPLOY" && t.Outcome == "no-offer" {
			wf.Tasks[i].Host = "host9"
		}
	}
	opt := coresim.Options{Agents: agents, Detectors: stdDetectors(3), Files: wf.Files()}
	for _, t := range sc.Tasks {
		if t.Outcome == "exec-lost-racing" {
			opt.Env = append(opt.Env, "VERIF_POINTS=taskman.executorFailed.beforeStateUpdate=sleep(600)")
			break
		}
	}
	s, err := coresim.Start(opt)
	if err != nil {
		c.Inconclusive("coresim start: " + truncate(err.Error(), 12000))
		return
	}
	obs := &c02Obs{Scenario: sc, Index: idx}
	defer func() {
		if os.Getenv("VERIF_DEBUG") != "" {
			for _, rec := range s.Master.Log() {
				b, _ := json.Marshal(rec)
				fmt.Println(string(b))
			}
			fmt.Println(obs.Steps)
		}
		finishSim(c, s, id, obs)
		s.Close()
	}()

	roleOf := func(t *simmesos.LaunchedTask) (c02Task, bool) {
		i := strings.LastIndex(t.RolePath, ".")
		tt, ok := byName[t.RolePath[i+1:]]
		return tt, ok
	}
	var armed bool // faults on commands only once the source state is reached
	for _, t := range sc.Tasks {
		if sc.Transition == "DEPLOY" && t.Outcome == "offer-late" {
			// the victim's agent is in no offer until the first offers round has gone out
			var shown atomic.Bool
			late := fmt.Sprintf("host%d", t.Host)
			s.Master.OfferFilter = func(a *simmesos.Agent) bool { return a.Hostname != late || shown.Load() }
			go func() {
				for s.CoreAlive() && !shown.Load() {
					for _, rec := range s.Master.Log() {
						if rec.Kind == "event" && rec.Type == "OFFER" {
							shown.Store(true)
							s.Master.Note("AGENT-NOW-OFFERED", map[string]interface{}{"host": late})
							c.Count("deployments_placed_on_a_later_offers_round", 1)
							break
						}
					}
					time.Sleep(5 * time.Millisecond)
				}
			}()
			break
		}
	}
	s.Master.OnLaunch = func(t *simmesos.LaunchedTask) simmesos.LaunchPlan {
		tt, ok := roleOf(t)
		plan := simmesos.LaunchPlan{Kind: "running", Delay: 30 * time.Millisecond}
		if ok && sc.Transition == "DEPLOY" {
			switch tt.Outcome {
			case "staging-failed":
				plan.Kind = "failed"
			case "never-running":
				plan.Kind = "never"
			}
		}
		return plan
	}
	s.Master.OnCommand = func(t *simmesos.LaunchedTask, cmd *simmesos.CommandSeen) simmesos.Reply {
		tt, ok := roleOf(t)
		if !ok || !armed || cmd.Event != c02TaskEvent[sc.Transition] {
			return simmesos.Reply{Kind: "ok"}
		}
		switch tt.Outcome {
		case "error-stay", "error-to-error", "silent", "die":
			return simmesos.Reply{Kind: tt.Outcome}
		}
		return simmesos.Reply{Kind: "ok"}
	}
	s.Master.OnCall = func(call *scheduler.Call, m *simmesos.Master) *simmesos.CallFault {
		if !armed || call.GetType() != scheduler.Call_MESSAGE {
			return nil
		}
		var cmd struct {
			Event      string `json:"event"`
			TargetList []struct {
				TaskId struct {
					Value string `json:"value"`
				}
			} `json:"targetList"`
		}
		if json.Unmarshal(call.GetMessage().GetData(), &cmd) != nil || len(cmd.TargetList) != 1 || cmd.Event != c02TaskEvent[sc.Transition] {
			return nil
		}
		if lt := m.Task(cmd.TargetList[0].TaskId.Value); lt != nil {
			if tt, ok := roleOf(lt); ok && tt.Outcome == "undeliverable" {
				return &simmesos.CallFault{HTTPStatus: 400} // refused, connection stays up (503 would make mesos-go resubscribe)
			}
		}
		return nil
	}

	long := false
	for _, t := range sc.Tasks {
		if t.Outcome == "silent" || t.Outcome == "die" || t.Outcome == "undeliverable" || t.Outcome == "exec-lost-before" || t.Outcome == "exec-lost-racing" || t.Outcome == "task-failed-before" || t.Outcome == "reported-unreachable" {
			long = true
		}
	}
	apiTimeout := 90 * time.Second
	if long {
		apiTimeout = 200 * time.Second
	}
	for _, t := range sc.Tasks {
		if t.Outcome == "undeliverable" {
			// refused call -> resubscription -> replies of the other targets lost -> their 90/120 s
			// timeouts, then the clean-up path's own commands can time out as well: chains of the
			// code's own timeouts, so the watchdog is wider
			apiTimeout = 480 * time.Second
		}
	}
	expect := sc.expectSuccess()
	either := false // outcome not determined by the scenario
	for _, t := range sc.Tasks {
		if t.Outcome == "undeliverable" && expect {
			either = true
		}
	}
	dst := c02Dst[sc.Transition]
	cls := sc.class()

	fail := func(rule, what string) {
		k := cls
		if rule == "HANG" && strings.Contains(obs.CoreLog, stuckClientSignature) {
			// canonical: the request hangs because the core can never re-subscribe (see stuckClientSignature)
			k = "scheduler-client-stuck-already-subscribed"
			what += "; the core's log shows the reason: " + stuckClientExplanation
		}
		lateOffer := false
		for _, t := range sc.Tasks {
			lateOffer = lateOffer || t.Outcome == "offer-late"
		}
		if rule == "SUCCESS-EXPECTED" && sc.Transition == "DEPLOY" && lateOffer {
			k = "DEPLOY/critical-task-placed-on-a-later-offers-round"
		} else if rule == "SUCCESS-EXPECTED" && sc.Transition == "DEPLOY" {
			// canonical family: creation fails although only non-critical tasks did not become active
			set := map[string]bool{}
			for _, t := range sc.Tasks {
				if t.Outcome != "ok" {
					set[t.Outcome] = true
				}
			}
			var ks []string
			for o := range set {
				ks = append(ks, o)
			}
			k = "DEPLOY/noncritical-task-not-active/" + strings.Join(sortedCopy(ks), "+")
		}
		c.Violation(rule, k, fmt.Sprintf("%s [scenario %d: %+v]", what, idx, sc), id, obs)
	}
	countDst := func(envID string, from int, states ...string) int {
		n := 0
		evs := s.Events()
		for i := from; i < len(evs); i++ {
			if !strings.HasSuffix(evs[i].Type, "Ev_EnvironmentEvent") {
				continue
			}
			var e envEvent
			if json.Unmarshal(evs[i].Ev, &e) != nil || e.EnvironmentId != envID {
				continue
			}
			for _, st := range states {
				if e.State == st {
					n++
				}
			}
		}
		return n
	}

	creationUnderTest := sc.Transition == "DEPLOY" || sc.Transition == "CONFIGURE"
	if creationUnderTest {
		armed = true
	}
	ev0 := len(s.Events())
	ctx, cancel := coresim.Ctx(apiTimeout)
	t0 := time.Now()
	nr, err := s.Client.NewEnvironment(ctx, &pb.NewEnvironmentRequest{WorkflowTemplate: wfName, Vars: map[string]string{}})
	cancel()
	obs.Steps = append(obs.Steps, fmt.Sprintf("NewEnvironment err=%q in %s", grpcMsg(err), time.Since(t0).Round(time.Millisecond)))
	c.Count("api_requests", 1)
	if err != nil && strings.Contains(grpcMsg(err), "DeadlineExceeded") {
		if s.CoreAlive() {
			waitQuiet(s, 2*time.Second, 5*time.Second)
			obs.Goroutines = s.DumpGoroutines()
			obs.CoreLog = s.LogTail(6000)
			fail("HANG", fmt.Sprintf("NewEnvironment did not return within %s with the master quiescent (nothing pending that could complete it)", apiTimeout))
		}
		return
	}
	if creationUnderTest {
		c.Count("transitions_judged", 1)
		obs.Err = grpcMsg(err)
		envID := ""
		if nr != nil && nr.GetEnvironment() != nil {
			envID = nr.GetEnvironment().GetId()
			obs.ReplyState = nr.GetEnvironment().GetState()
		}
		if either {
			c.Count("expected_either", 1)
			if err != nil {
				return
			}
		} else if expect {
			c.Count("expected_success", 1)
			if err != nil {
				fail("SUCCESS-EXPECTED", fmt.Sprintf("%s under test: creation failed (%s) although every critical task got there", sc.Transition, grpcMsg(err)))
				return
			}
			if obs.ReplyState != "CONFIGURED" {
				fail("SUCCESS-EXPECTED", "creation returned OK but state "+obs.ReplyState)
			}
		} else {
			c.Count("expected_failure", 1)
			if err == nil {
				fail("FAILURE-EXPECTED", fmt.Sprintf("%s under test: creation returned OK (state %s) although a critical task did not get there", sc.Transition, obs.ReplyState))
				return
			}
			// the destination state must never have been reported
			ids, _ := listEnvIDs(s)
			for eid, st := range ids {
				if st != "ERROR" && st != "DONE" {
					fail("FAILURE-EXPECTED", fmt.Sprintf("after failed creation environment %s is listed in state %s", eid, st))
				}
			}
			bad := []string{"CONFIGURED"}
			if sc.Transition == "DEPLOY" {
				bad = append(bad, "DEPLOYED")
			}
			evs := s.Events()
			for i := ev0; i < len(evs); i++ {
				if !strings.HasSuffix(evs[i].Type, "Ev_EnvironmentEvent") {
					continue
				}
				var e envEvent
				if json.Unmarshal(evs[i].Ev, &e) != nil {
					continue
				}
				for _, b := range bad {
					if e.State == b {
						obs.DstEvents++
					}
				}
			}
			if obs.DstEvents > 0 {
				fail("DST-REPORTED", fmt.Sprintf("destination state reported in %d published events although the %s failed", obs.DstEvents, sc.Transition))
			}
			_ = envID
		}
		if err != nil {
			return
		}
	} else if err != nil {
		c.Inconclusive(fmt.Sprintf("scenario %d: fault-free creation failed: %s", idx, grpcMsg(err)))
		return
	}
	envID := nr.GetEnvironment().GetId()

	control := func(op pb.ControlEnvironmentRequest_Optype) (*pb.ControlEnvironmentReply, error) {
		ctx, cancel := coresim.Ctx(apiTimeout)
		defer cancel()
		t0 := time.Now()
		r, err := s.Client.ControlEnvironment(ctx, &pb.ControlEnvironmentRequest{Id: envID, Type: op})
		obs.Steps = append(obs.Steps, fmt.Sprintf("%s err=%q state=%s in %s", op, grpcMsg(err), r.GetState(), time.Since(t0).Round(time.Millisecond)))
		c.Count("api_requests", 1)
		return r, err
	}
	// bring the environment to the source state of the transition under test
	var path []pb.ControlEnvironmentRequest_Optype
	switch sc.Transition {
	case "STOP_ACTIVITY":
		path = []pb.ControlEnvironmentRequest_Optype{pb.ControlEnvironmentRequest_START_ACTIVITY}
	}
	for _, op := range path {
		if _, err := control(op); err != nil {
			c.Inconclusive(fmt.Sprintf("scenario %d: fault-free %s failed: %s", idx, op, grpcMsg(err)))
			return
		}
	}
	var follow []pb.ControlEnvironmentRequest_Optype
	if !creationUnderTest {
		armed = true
		op := map[string]pb.ControlEnvironmentRequest_Optype{"START_ACTIVITY": pb.ControlEnvironmentRequest_START_ACTIVITY, "STOP_ACTIVITY": pb.ControlEnvironmentRequest_STOP_ACTIVITY, "RESET": pb.ControlEnvironmentRequest_RESET}[sc.Transition]
		ev1 := len(s.Events())
		nCmd0 := len(s.Master.Log())
		for _, lt := range s.Master.Tasks() {
			if tt, ok := roleOf(&lt); ok && (tt.Outcome == "exec-lost-before" || tt.Outcome == "exec-lost-racing") {
				s.Master.Note("EXECUTOR-LOST", map[string]interface{}{"task": lt.RolePath})
				s.Master.ExecutorFailure(lt.AgentID, lt.ExecutorID, false)
				c.Count("executors_lost_before_request", 1)
			}
			if tt, ok := roleOf(&lt); ok && tt.Outcome == "reported-unreachable" {
				s.Master.Note("TASK-UNREACHABLE", map[string]interface{}{"task": lt.RolePath})
				s.Master.TaskStatus(lt.ID, "TASK_UNREACHABLE", "agent partitioned (scripted)")
				c.Count("tasks_reported_unreachable_before_request", 1)
			}
			if tt, ok := roleOf(&lt); ok && tt.Outcome == "task-failed-before" {
				// the terminal state reported varies with the transition: failed, killed (by an operator, by
				// the agent) or lost - a dead task whatever it is called
				dead := map[string]string{"START_ACTIVITY": "TASK_FAILED", "STOP_ACTIVITY": "TASK_KILLED", "RESET": "TASK_LOST"}[sc.Transition]
				if dead == "" {
					dead = "TASK_FAILED"
				}
				s.Master.Note("TASK-FAILED", map[string]interface{}{"task": lt.RolePath, "reported_as": dead})
				s.Master.TaskStatus(lt.ID, dead, "process died (scripted)")
				c.Count("tasks_failed_before_request", 1)
				c.Count("tasks_failed_before_request_as_"+dead, 1)
			}
		}
		for _, t := range sc.Tasks {
			if t.Outcome == "exec-lost-before" || t.Outcome == "exec-lost-racing" || t.Outcome == "task-failed-before" || t.Outcome == "reported-unreachable" {
				time.Sleep(80 * time.Millisecond) // inside the environment watcher's 500 ms grace period
				break
			}
		}
		r, err := control(op)
		armed = false
		c.Count("transitions_judged", 1)
		obs.Err = grpcMsg(err)
		obs.ReplyState = r.GetState()
		if err != nil && strings.Contains(grpcMsg(err), "DeadlineExceeded") {
			if s.CoreAlive() {
				waitQuiet(s, 2*time.Second, 5*time.Second)
				obs.Goroutines = s.DumpGoroutines()
				obs.CoreLog = s.LogTail(6000)
				fail("HANG", fmt.Sprintf("%s did not return within %s with the master quiescent", sc.Transition, apiTimeout))
			}
			return
		}
		after, aerr := envState(s, envID)
		obs.AfterState = after
		if either {
			c.Count("expected_either", 1)
			if (err == nil) != (after == dst) || (err != nil && aerr == nil && after != "ERROR") {
				fail("INCONSISTENT", fmt.Sprintf("%s: status %q but state after=%s", sc.Transition, grpcMsg(err), after))
			}
			return
		} else if expect {
			c.Count("expected_success", 1)
			if err != nil {
				fail("SUCCESS-EXPECTED", fmt.Sprintf("%s returned an error (%s) although every critical task acknowledged it", sc.Transition, grpcMsg(err)))
				return
			}
			if r.GetState() != dst || after != dst {
				fail("SUCCESS-EXPECTED", fmt.Sprintf("%s returned OK but state reply=%s after=%s (want %s)", sc.Transition, r.GetState(), after, dst))
				return
			}
			// every task whose role is active got exactly one command for the event
			seen := map[string]int{}
			for _, rec := range s.Master.Log()[nCmd0:] {
				if rec.Kind == "call" && rec.Type == "MESSAGE" && rec.F["event"] == c02TaskEvent[sc.Transition] {
					seen[rec.TaskID]++
				}
			}
			for _, lt := range s.Master.Tasks() {
				if lt.EnvID == envID && !lt.Terminal && seen[lt.ID] != 1 {
					fail("COMMAND-COUNT", fmt.Sprintf("task %s (%s) received %d %s commands during a successful transition", lt.RolePath, lt.ID, seen[lt.ID], c02TaskEvent[sc.Transition]))
				}
			}
			switch sc.Transition {
			case "START_ACTIVITY":
				follow = []pb.ControlEnvironmentRequest_Optype{pb.ControlEnvironmentRequest_STOP_ACTIVITY}
			case "STOP_ACTIVITY":
				follow = []pb.ControlEnvironmentRequest_Optype{pb.ControlEnvironmentRequest_RESET}
			}
		} else {
			c.Count("expected_failure", 1)
			if err == nil {
				fail("FAILURE-EXPECTED", fmt.Sprintf("%s returned OK (reply state %s) although a critical task did not acknowledge it; the request must return an error", sc.Transition, r.GetState()))
			}
			if r.GetState() == dst {
				fail("DST-REPORTED", fmt.Sprintf("%s failed but the reply reports the destination state %s", sc.Transition, dst))
			}
			if aerr == nil && after != "ERROR" {
				fail("NOT-ERROR", fmt.Sprintf("%s failed but the environment ends in %s, not ERROR", sc.Transition, after))
			}
			obs.DstEvents = countDst(envID, ev1, dst)
			if obs.DstEvents > 0 {
				fail("DST-REPORTED", fmt.Sprintf("destination state %s reported in %d published events although %s failed", dst, obs.DstEvents, sc.Transition))
			}
		}
	} else if expect && !either {
		follow = []pb.ControlEnvironmentRequest_Optype{pb.ControlEnvironmentRequest_START_ACTIVITY}
	}
	if either {
		// a refused call made the scheduler resubscribe: a follow-up sent into the reconnection window
		// fails for that reason, which says nothing about the property
		follow = nil
	}
	// failures confined to non-critical tasks never make a (later) transition fail
	for _, op := range follow {
		r, err := control(op)
		c.Count("followup_transitions", 1)
		if err != nil {
			if strings.Contains(grpcMsg(err), "DeadlineExceeded") {
				fail("HANG", fmt.Sprintf("follow-up %s did not return", op))
			} else {
				fail("FOLLOWUP", fmt.Sprintf("follow-up %s after a successful %s failed: %s (only non-critical tasks are in a wrong state)", op, sc.Transition, grpcMsg(err)))
			}
			return
		}
		_ = r
	}
	// tidy: destroy (not judged here)
	ctx2, cancel2 := coresim.Ctx(20 * time.Second)
	s.Client.DestroyEnvironment(ctx2, &pb.DestroyEnvironmentRequest{Id: envID, Force: true, AllowInRunningState: true})
	cancel2()
}

// c02SilentHook: START_ACTIVITY of an environment whose workflow has a non-critical hook task at
// before_START_ACTIVITY that accepts the trigger and never answers. The failure is confined to a non-critical
// hook: once the trigger's own timeout has expired the transition must go on, command its tasks (they all
// acknowledge) and report RUNNING.
func c02SilentHook(c *vlib.Ctx, idx int, id int64, sc c02Scenario) {
	wfName := fmt.Sprintf("c02w%d", idx)
	wf := coresim.WorkflowSpec{Name: wfName, Hosts: []string{"host1"}, Defaults: map[string]string{"deploy_timeout": "60s"}}
	for _, t := range sc.Tasks {
		wf.Tasks = append(wf.Tasks, coresim.TaskSpec{Name: t.Name, Host: fmt.Sprintf("host%d", t.Host), Critical: t.Critical, Mode: t.Mode})
	}
	wf.Tasks = append(wf.Tasks, coresim.TaskSpec{Name: "hk", Host: "host2", Critical: false, Mode: "basic", Trigger: "before_START_ACTIVITY", Timeout: "5s"})
	s, err := coresim.Start(coresim.Options{Agents: stdAgents(3), Detectors: stdDetectors(3), Files: wf.Files()})
	if err != nil {
		c.Inconclusive("coresim start: " + truncate(err.Error(), 12000))
		return
	}
	obs := &c02Obs{Scenario: sc, Index: idx}
	defer func() {
		finishSim(c, s, id, obs)
		s.Close()
	}()
	s.Master.OnLaunch = func(t *simmesos.LaunchedTask) simmesos.LaunchPlan {
		return simmesos.LaunchPlan{Kind: "running", Delay: 30 * time.Millisecond}
	}
	s.Master.OnCommand = func(t *simmesos.LaunchedTask, cmd *simmesos.CommandSeen) simmesos.Reply {
		if cmd.Name == "MesosCommand_TriggerHook" && strings.HasSuffix(t.RolePath, ".hk") {
			return simmesos.Reply{Kind: "silent"}
		}
		return simmesos.Reply{Kind: "ok"}
	}
	ctx, cancel := coresim.Ctx(90 * time.Second)
	r, err := s.Client.NewEnvironment(ctx, &pb.NewEnvironmentRequest{WorkflowTemplate: wfName})
	cancel()
	if err != nil {
		c.Inconclusive(fmt.Sprintf("scenario %d: fault-free creation failed: %s", idx, truncate(grpcMsg(err), 300)))
		return
	}
	envID := r.GetEnvironment().GetId()
	apiTimeout := 240 * time.Second
	t0 := time.Now()
	ctx, cancel = coresim.Ctx(apiTimeout)
	rr, err := s.Client.ControlEnvironment(ctx, &pb.ControlEnvironmentRequest{Id: envID, Type: pb.ControlEnvironmentRequest_START_ACTIVITY})
	cancel()
	c.Count("transitions_judged", 1)
	c.Count("transitions_with_a_silent_noncritical_hook_task", 1)
	obs.Err, obs.ReplyState = grpcMsg(err), rr.GetState()
	obs.Steps = append(obs.Steps, fmt.Sprintf("START_ACTIVITY err=%q state=%s after %s", truncate(grpcMsg(err), 200), rr.GetState(), time.Since(t0).Round(time.Second)))
	triggered := false
	for _, t := range s.Master.Tasks() {
		if strings.HasSuffix(t.RolePath, ".hk") {
			for _, cs := range t.Commands {
				triggered = triggered || cs.Name == "MesosCommand_TriggerHook"
			}
		}
	}
	if !triggered {
		c.Inconclusive(fmt.Sprintf("scenario %d: the hook task was never triggered", idx))
		return
	}
	fail := func(rule, what string) {
		c.Violation(rule, sc.class(), fmt.Sprintf("%s [scenario %d: %+v]", what, idx, sc), id, obs)
	}
	if err != nil && strings.Contains(grpcMsg(err), "DeadlineExceeded") {
		if s.CoreAlive() {
			waitQuiet(s, 2*time.Second, 5*time.Second)
			obs.Goroutines = s.DumpGoroutines()
			obs.CoreLog = s.LogTail(6000)
			fail("HANG", fmt.Sprintf("START_ACTIVITY did not return within %s with the master quiescent (the hook trigger's timeout is 90 s, every task of the transition answers at once)", apiTimeout))
		}
		return
	}
	after, _ := envState(s, envID)
	obs.AfterState = after
	c.Count("expected_success", 1)
	if err != nil || after != "RUNNING" {
		fail("SUCCESS-EXPECTED", fmt.Sprintf("START_ACTIVITY returned %q and the environment is in %s although only a non-critical hook task failed to answer", grpcMsg(err), after))
	}
}
