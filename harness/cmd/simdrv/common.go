package main

import (
	"fmt"
	"io"
	"os"
	"path/filepath"
	"regexp"
	"strings"
	"sync"
	"sync/atomic"
	"time"

	pb "github.com/AliceO2Group/Control/core/protos"
	"google.golang.org/grpc/status"

	"verif/harness/coresim"
	simmesos "verif/harness/sim/mesos"
	"verif/harness/vlib"
)

var raceCopySeq int64

// stdAgents builds n agents host1..hostn with generous resources.
func stdAgents(n int) []*simmesos.Agent {
	var as []*simmesos.Agent
	for i := 1; i <= n; i++ {
		h := fmt.Sprintf("host%d", i)
		as = append(as, &simmesos.Agent{ID: "agent-" + h, Hostname: h, Attributes: map[string]string{"machine_id": h},
			CPU: 16, Mem: 16384, Ports: [][2]uint64{{9000, 9200}, {30000, 30200}}})
	}
	return as
}

var stdDetectorNames = []string{"TST", "ITS", "TPC", "TOF", "MFT", "MCH"}

// stdDetectors: host i → detector i.
func stdDetectors(n int) map[string][]string {
	m := map[string][]string{}
	for i := 1; i <= n; i++ {
		m[stdDetectorNames[(i-1)%len(stdDetectorNames)]] = append(m[stdDetectorNames[(i-1)%len(stdDetectorNames)]], fmt.Sprintf("host%d", i))
	}
	return m
}

var addrRe = regexp.MustCompile(`0x[0-9a-f]+`)

// finishSim copies the core's race logs next to the batch's own (so the parent
// parses them) and reports a core crash as a violation attributed to the case.
func finishSim(c *vlib.Ctx, s *coresim.Sim, caseID int64, witness interface{}) (crashed bool) {
	for _, rl := range s.RaceLogs() {
		n := atomic.AddInt64(&raceCopySeq, 1)
		src, err := os.Open(rl)
		if err != nil {
			continue
		}
		dst, err := os.Create(filepath.Join(c.OutDir, fmt.Sprintf("race.core-%d-%d", os.Getpid(), n)))
		if err == nil {
			io.Copy(dst, src)
			dst.Close()
		}
		src.Close()
	}
	if crash := s.CoreCrash(); crash != "" {
		head := strings.SplitN(crash, "\n", 2)[0]
		where := "?"
		for _, ln := range strings.Split(crash, "\n") {
			t := strings.TrimSpace(ln)
			if strings.HasPrefix(t, "/repo/") {
				where = strings.SplitN(strings.TrimPrefix(t, "/repo/"), ":", 2)[0]
				break
			}
			if strings.HasPrefix(t, "/verif/") {
				where = "HARNESS:" + strings.SplitN(t, ":", 2)[0]
				break
			}
		}
		if strings.HasPrefix(where, "HARNESS:") {
			c.Inconclusive("core child crashed in harness code: " + head + " at " + where)
		} else {
			c.Violation("CRASH", addrRe.ReplaceAllString(head, "0x?")+"@"+where, "the core process died: "+truncate(crash, 1500), caseID, witness)
		}
		return true
	}
	return false
}

func truncate(s string, n int) string {
	if len(s) > n {
		return s[:n] + "…"
	}
	return s
}

// parallel runs f(i) for i in [lo,hi) with at most n concurrently.
func parallel(lo, hi, n int, f func(i int)) {
	sem := make(chan struct{}, n)
	var wg sync.WaitGroup
	for i := lo; i < hi; i++ {
		wg.Add(1)
		sem <- struct{}{}
		go func(i int) {
			defer wg.Done()
			defer func() { <-sem }()
			f(i)
		}(i)
	}
	wg.Wait()
}

func grpcMsg(err error) string {
	if err == nil {
		return ""
	}
	if st, ok := status.FromError(err); ok {
		return st.Code().String() + ": " + st.Message()
	}
	return err.Error()
}

// envState asks the core for the environment's state ("" + err text if absent).
func envState(s *coresim.Sim, id string) (string, error) {
	ctx, cancel := coresim.Ctx(20 * time.Second)
	defer cancel()
	r, err := s.Client.GetEnvironment(ctx, &pb.GetEnvironmentRequest{Id: id})
	if err != nil {
		return "", err
	}
	return r.GetEnvironment().GetState(), nil
}

func listEnvIDs(s *coresim.Sim) (map[string]string, error) {
	ctx, cancel := coresim.Ctx(20 * time.Second)
	defer cancel()
	r, err := s.Client.GetEnvironments(ctx, &pb.GetEnvironmentsRequest{ShowAll: true})
	if err != nil {
		return nil, err
	}
	m := map[string]string{}
	for _, e := range r.GetEnvironments() {
		m[e.GetId()] = e.GetState()
	}
	return m, nil
}

// waitQuiet waits until the master log has not grown for `quiet`, at most `max`.
func waitQuiet(s *coresim.Sim, quiet, max time.Duration) {
	deadline := time.Now().Add(max)
	last := s.Master.LogLen()
	lastChange := time.Now()
	for time.Now().Before(deadline) {
		time.Sleep(10 * time.Millisecond)
		if n := s.Master.LogLen(); n != last {
			last = n
			lastChange = time.Now()
		} else if time.Since(lastChange) >= quiet {
			return
		}
	}
}

type envEvent struct {
	EnvironmentId  string `json:"environmentId"`
	State          string `json:"state"`
	RunNumber      uint32 `json:"runNumber"`
	Error          string `json:"error"`
	Message        string `json:"message"`
	Transition     string `json:"transition"`
	TransitionStep string `json:"transitionStep"`
}
