package main

// C04 part (b): which detectors an environment NEEDS is ground truth here (the detectors of the hosts it is
// created on, from the inventory in the configuration store), not what the core reports back. Part (a)
// (cmd/simown) judges the core's own reports against each other; this part checks that a creation on a
// detector that a live environment needs is refused - also when the host joined the inventory after the core
// (and its configuration cache) had started.

import (
	"fmt"
	"os"
	"sort"
	"strings"
	"time"

	pb "github.com/AliceO2Group/Control/core/protos"

	"verif/harness/coresim"
	simmesos "verif/harness/sim/mesos"
	"verif/harness/vlib"
)

type c04bCreate struct {
	Hosts  []string `json:"hosts"`          // value of the `hosts` variable of the request
	Expect string   `json:"expect"`         // ok | refused
	Then   string   `json:"then,omitempty"` // destroy: the environment is destroyed right after (warm-up)
}

type c04bScenario struct {
	Name    string       `json:"name"`
	Late    []string     `json:"late_hosts"` // hosts added to the inventory (detector ZDC, ...) after the core started
	Creates []c04bCreate `json:"creates"`
}

type c04bObs struct {
	Scenario c04bScenario `json:"scenario"`
	Index    int          `json:"index"`
	Steps    []string     `json:"steps"`
}

var c04bLateDet = map[string]string{"hostlate": "ZDC", "hostlate2": "FDD"}

func c04bScenarios() []c04bScenario {
	return []c04bScenario{
		{Name: "known-host", Creates: []c04bCreate{{Hosts: []string{"host2"}, Expect: "ok"}, {Hosts: []string{"host2"}, Expect: "refused"}, {Hosts: []string{"host3"}, Expect: "ok"}}},
		{Name: "late-host/first-mention", Late: []string{"hostlate"}, Creates: []c04bCreate{{Hosts: []string{"hostlate"}, Expect: "ok"}, {Hosts: []string{"hostlate"}, Expect: "refused"}}},
		{Name: "late-host/next-to-a-known-one", Late: []string{"hostlate"}, Creates: []c04bCreate{{Hosts: []string{"host1", "hostlate"}, Expect: "ok"}, {Hosts: []string{"hostlate"}, Expect: "refused"}, {Hosts: []string{"host1"}, Expect: "refused"}, {Hosts: []string{"host2"}, Expect: "ok"}}},
		{Name: "late-host/mentioned-before", Late: []string{"hostlate"}, Creates: []c04bCreate{{Hosts: []string{"hostlate"}, Expect: "ok", Then: "destroy"}, {Hosts: []string{"hostlate"}, Expect: "ok"}, {Hosts: []string{"hostlate"}, Expect: "refused"}}},
		{Name: "two-late-hosts", Late: []string{"hostlate", "hostlate2"}, Creates: []c04bCreate{{Hosts: []string{"hostlate"}, Expect: "ok"}, {Hosts: []string{"hostlate2"}, Expect: "ok"}, {Hosts: []string{"hostlate2", "hostlate"}, Expect: "refused"}, {Hosts: []string{"hostlate2"}, Expect: "refused"}}},
		{Name: "late-host/second-of-a-list", Late: []string{"hostlate"}, Creates: []c04bCreate{{Hosts: []string{"host2", "hostlate"}, Expect: "ok"}, {Hosts: []string{"host3", "hostlate"}, Expect: "refused"}}},
	}
}

func runC04B() {
	c := vlib.Start("C04B")
	defer c.Finish()
	scs := c04bScenarios()
	// every batch runs every scenario (they are few); the seed moves the settle times
	lo, hi := 0, len(scs)
	if only := os.Getenv("VERIF_ONLY"); only != "" {
		fmt.Sscan(only, &lo)
		hi = lo + 1
	}
	parallel(lo, hi, 3, func(i int) { c04bRun(c, i, scs[i]) })
}

func c04bRun(c *vlib.Ctx, idx int, sc c04bScenario) {
	id := c.Case(map[string]interface{}{"index": idx, "scenario": sc, "batch": c.Batch})
	if idx == 1 {
		c.Sample(sc)
	}
	c.Nontrivial(vlib.Hash("c04b", sc.Name, c.Batch))
	obs := &c04bObs{Scenario: sc, Index: idx}
	wfName := fmt.Sprintf("c04bw%d", idx)
	wf := coresim.WorkflowSpec{Name: wfName, Hosts: []string{"host1"}, Defaults: map[string]string{"deploy_timeout": "60s"}, Tasks: []coresim.TaskSpec{
		{Name: "t0", Host: "host1", Critical: true, Mode: "direct"},
		{Name: "t1", Host: "host2", Critical: false, Mode: "basic"},
	}}
	s, err := coresim.Start(coresim.Options{Agents: stdAgents(3), Detectors: stdDetectors(3), Files: wf.Files()})
	if err != nil {
		c.Inconclusive("coresim start: " + truncate(err.Error(), 3000))
		return
	}
	defer func() {
		finishSim(c, s, id, obs)
		s.Close()
	}()
	s.Master.OnLaunch = func(t *simmesos.LaunchedTask) simmesos.LaunchPlan {
		return simmesos.LaunchPlan{Kind: "running", Delay: 30 * time.Millisecond}
	}
	s.Master.OnCommand = func(t *simmesos.LaunchedTask, cmd *simmesos.CommandSeen) simmesos.Reply {
		return simmesos.Reply{Kind: "ok"}
	}
	// ground truth: host -> detector
	detOf := map[string]string{}
	for det, hosts := range stdDetectors(3) {
		for _, h := range hosts {
			detOf[h] = det
		}
	}
	// the inventory grows while the core is running (its configuration cache was filled at start-up)
	for _, h := range sc.Late {
		s.Consul.Put("o2/hardware/detectors/"+c04bLateDet[h]+"/flps/"+h+"/", "")
		detOf[h] = c04bLateDet[h]
		c.Count("hosts_added_to_the_inventory_after_start", 1)
	}
	time.Sleep(time.Duration(50+c.SubRand(int64(idx)).Intn(200)) * time.Millisecond)

	type live struct {
		id    string
		needs map[string]bool
	}
	var lives []live
	api := 90 * time.Second
	for k, cr := range sc.Creates {
		hb := `["` + strings.Join(cr.Hosts, `","`) + `"]`
		needs := map[string]bool{}
		for _, h := range cr.Hosts {
			needs[detOf[h]] = true
		}
		var clash []string
		for _, l := range lives {
			for d := range needs {
				if l.needs[d] {
					clash = append(clash, d+" (needed by live environment "+l.id+")")
				}
			}
		}
		sort.Strings(clash)
		ctx, cancel := coresim.Ctx(api)
		r, err := s.Client.NewEnvironment(ctx, &pb.NewEnvironmentRequest{WorkflowTemplate: wfName, Vars: map[string]string{"hosts": hb}})
		cancel()
		c.Count("creations_judged", 1)
		rep := ""
		if err == nil {
			d := append([]string(nil), r.GetEnvironment().GetIncludedDetectors()...)
			sort.Strings(d)
			rep = fmt.Sprintf(" id=%s includedDetectors=%v", r.GetEnvironment().GetId(), d)
		}
		obs.Steps = append(obs.Steps, fmt.Sprintf("create #%d hosts=%s err=%q%s", k, hb, truncate(grpcMsg(err), 200), rep))
		if err != nil && strings.Contains(grpcMsg(err), "DeadlineExceeded") {
			c.Inconclusive(fmt.Sprintf("scenario %d: creation #%d did not return within %s", idx, k, api))
			return
		}
		if (cr.Expect == "refused") != (len(clash) > 0) {
			c.Inconclusive(fmt.Sprintf("scenario %d: creation #%d: the scenario's expectation disagrees with the bookkeeping (harness)", idx, k))
			return
		}
		switch {
		case len(clash) > 0 && err == nil:
			c.Count("creations_on_a_needed_detector", 1)
			c.Violation("DET-EXCL", "needed-detector-in-use/"+sc.Name, fmt.Sprintf("creation #%d on hosts %s was accepted (%s) although it needs detector %s [scenario %d: %+v]", k, hb, strings.TrimSpace(rep), strings.Join(clash, ", "), idx, sc), id, obs)
			return
		case len(clash) > 0:
			c.Count("creations_on_a_needed_detector", 1)
			c.Count("creations_refused", 1)
			if !strings.Contains(grpcMsg(err), "in use") {
				c.Count("creations_refused_for_another_reason", 1)
			}
			// the holders are undisturbed
			ids, lerr := listEnvIDs(s)
			if lerr != nil {
				c.Inconclusive("GetEnvironments: " + grpcMsg(lerr))
				return
			}
			for _, l := range lives {
				if ids[l.id] != "CONFIGURED" {
					c.Violation("HOLDER-DISTURBED", "state-after-refused-creation/"+sc.Name, fmt.Sprintf("live environment %s is in state %q after a creation on one of its detectors was refused [scenario %d: %+v]", l.id, ids[l.id], idx, sc), id, obs)
					return
				}
			}
			for _, t := range s.Master.Tasks() {
				for _, l := range lives {
					if t.EnvID == l.id && (t.Terminal || t.KillAsked > 0) {
						c.Violation("HOLDER-DISTURBED", "task-killed-by-refused-creation/"+sc.Name, fmt.Sprintf("task %s of live environment %s was killed/terminated around a refused creation [scenario %d: %+v]", t.RolePath, l.id, idx, sc), id, obs)
						return
					}
				}
			}
		case err != nil:
			c.Inconclusive(fmt.Sprintf("scenario %d: creation #%d on free detectors failed: %s", idx, k, truncate(grpcMsg(err), 300)))
			return
		default:
			c.Count("creations_accepted", 1)
			eid := r.GetEnvironment().GetId()
			got := map[string]bool{}
			for _, d := range r.GetEnvironment().GetIncludedDetectors() {
				got[d] = true
			}
			same := len(got) == len(needs)
			for d := range needs {
				same = same && got[d]
			}
			if !same {
				c.Count("accepted_with_other_detectors_than_its_hosts_have", 1) // recorded; judged when the next creation is accepted
			}
			if cr.Then == "destroy" {
				ctx, cancel := coresim.Ctx(api)
				_, derr := s.Client.DestroyEnvironment(ctx, &pb.DestroyEnvironmentRequest{Id: eid})
				cancel()
				obs.Steps = append(obs.Steps, fmt.Sprintf("destroy %s err=%q", eid, truncate(grpcMsg(derr), 200)))
				if derr != nil {
					c.Inconclusive(fmt.Sprintf("scenario %d: fault-free destroy failed: %s", idx, truncate(grpcMsg(derr), 300)))
					return
				}
				waitQuiet(s, 200*time.Millisecond, 5*time.Second)
			} else {
				lives = append(lives, live{eid, needs})
			}
		}
	}
	c.Count("scenarios_completed", 1)
}
