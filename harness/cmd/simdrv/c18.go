package main

// C18 — a restarted core kills what it no longer owns, and only that.

import (
	"fmt"
	"os"
	"strings"
	"sync"
	"sync/atomic"
	"time"

	pb "github.com/AliceO2Group/Control/core/protos"

	"github.com/mesos/mesos-go/api/v1/lib/scheduler"
	"verif/harness/coresim"

	simmesos "verif/harness/sim/mesos"
	"verif/harness/vlib"
)

type c18Scenario struct {
	Kind  string `json:"kind"`  // crash | reconnect
	Point string `json:"point"` // where
	Shape int    `json:"shape"` // workflow shape
	// NoCheckpoint: the core runs with mesosCheckpoint=false (identity and clean-up must not depend on it)
	NoCheckpoint bool `json:"no_checkpoint,omitempty"`
	// ReconcileLost: the master refuses the first RECONCILE call of the new life (503): the client
	// re-subscribes, and the new subscription has to reconcile again
	ReconcileLost bool `json:"reconcile_lost,omitempty"`
	// KillLost: the first KILL the new life sends for a leftover task has no effect (lost); a new
	// environment is then deployed and the event stream dropped: the reconciliation that follows the
	// re-subscription has to report the leftover again, and it has to be killed then
	KillLost bool `json:"kill_lost,omitempty"`
}

var c18CrashPoints = []string{"launched-not-running", "configure-outstanding", "configured", "start-outstanding", "running", "stop-outstanding", "stopped", "reset-outstanding", "teardown-first-kill", "destroyed"}
var c18ReconnectPoints = []string{"configured", "running", "configure-outstanding", "start-outstanding", "stop-outstanding"}

func c18Scenarios(c *vlib.Ctx) []c18Scenario {
	var out []c18Scenario
	if c.Tier == "thorough" {
		for shape := 0; shape < 3; shape++ {
			for _, p := range c18CrashPoints {
				out = append(out, c18Scenario{Kind: "crash", Point: p, Shape: shape})
			}
			for _, p := range c18ReconnectPoints {
				out = append(out, c18Scenario{Kind: "reconnect", Point: p, Shape: shape})
			}
		}
		for i, p := range c18CrashPoints {
			out = append(out, c18Scenario{Kind: "crash", Point: p, Shape: i % 3, NoCheckpoint: true})
			out = append(out, c18Scenario{Kind: "crash", Point: p, Shape: (i + 1) % 3, ReconcileLost: true})
		}
		for i, p := range []string{"configured", "running", "stop-outstanding", "launched-not-running"} {
			out = append(out, c18Scenario{Kind: "crash", Point: p, Shape: i % 3, KillLost: true})
		}
		for i, p := range c18ReconnectPoints {
			out = append(out, c18Scenario{Kind: "reconnect", Point: p, Shape: i % 3, NoCheckpoint: true})
		}
		return out
	}
	out = append(out, c18Scenario{Kind: "crash", Point: "running", Shape: 2, NoCheckpoint: true},
		c18Scenario{Kind: "reconnect", Point: "configured", Shape: 1, NoCheckpoint: true},
		c18Scenario{Kind: "crash", Point: "configured", Shape: 1, ReconcileLost: true},
		c18Scenario{Kind: "crash", Point: "start-outstanding", Shape: 2, ReconcileLost: true},
		c18Scenario{Kind: "crash", Point: "configured", Shape: 2, KillLost: true},
		c18Scenario{Kind: "crash", Point: "running", Shape: 1, KillLost: true})
	for i, p := range []string{"launched-not-running", "configure-outstanding", "configured", "running", "stop-outstanding", "teardown-first-kill"} {
		out = append(out, c18Scenario{Kind: "crash", Point: p, Shape: i % 3})
	}
	for i, p := range []string{"configured", "running", "start-outstanding"} {
		out = append(out, c18Scenario{Kind: "reconnect", Point: p, Shape: i % 3})
	}
	return out
}

func runC18() {
	c := vlib.Start(os.Args[1])
	defer c.Finish()
	scs := c18Scenarios(c)
	lo, hi := c.Slice(len(scs))
	if only := os.Getenv("VERIF_ONLY"); only != "" {
		fmt.Sscan(only, &lo)
		hi = lo + 1
	}
	parallel(lo, hi, 3, func(i int) { c18Run(c, i, scs[i]) })
}

type c18Obs struct {
	Scenario c18Scenario `json:"scenario"`
	Index    int         `json:"index"`
	Steps    []string    `json:"steps"`
	Tasks    []string    `json:"tasks,omitempty"`
	FIDs     []string    `json:"subscribe_fids,omitempty"`
}

func c18Run(c *vlib.Ctx, idx int, sc c18Scenario) {
	id := c.Case(map[string]interface{}{"index": idx, "scenario": sc})
	c.Sample(sc)
	cls := sc.Kind + "/" + sc.Point
	if sc.NoCheckpoint {
		cls += "+nocheckpoint"
		c.Count("scenarios_without_checkpointing", 1)
	}
	if sc.ReconcileLost {
		cls += "+reconcile-lost"
	}
	if sc.KillLost {
		cls += "+kill-lost"
	}
	c.Nontrivial(vlib.Hash("c18", cls, sc.Shape))
	obs := &c18Obs{Scenario: sc, Index: idx}
	wfName := fmt.Sprintf("c18w%d", idx)
	shapes := [][]coresim.TaskSpec{
		{{Name: "a", Host: "host1", Critical: true, Mode: "direct"}},
		{{Name: "a", Host: "host1", Critical: true, Mode: "direct"}, {Name: "b", Host: "host2", Critical: false, Mode: "basic"}},
		{{Name: "a", Host: "host1", Critical: true, Mode: "fairmq"}, {Name: "b", Host: "host1", Critical: true, Mode: "basic"}, {Name: "c", Host: "host2", Critical: false, Mode: "direct"}},
	}
	wf := coresim.WorkflowSpec{Name: wfName, Hosts: []string{"host1"}, Defaults: map[string]string{"deploy_timeout": "60s"}, Tasks: shapes[sc.Shape]}
	opt := coresim.Options{Agents: stdAgents(2), Detectors: stdDetectors(2), Files: wf.Files()}
	if sc.NoCheckpoint {
		opt.Settings = map[string]string{"mesosCheckpoint": "false"}
	}
	s, err := coresim.Start(opt)
	if err != nil {
		c.Inconclusive("coresim start: " + truncate(err.Error(), 3000))
		return
	}
	defer func() {
		finishSim(c, s, id, obs)
		s.Close()
	}()
	fail := func(rule, what string) {
		obs.Tasks = nil
		for _, t := range s.Master.Tasks() {
			obs.Tasks = append(obs.Tasks, fmt.Sprintf("%s %s life=%d mesos=%s kills=%d", t.RolePath, t.ID, t.Life, t.Mesos, t.KillAsked))
		}
		obs.FIDs = s.Master.SubscribeFIDs()
		c.Violation(rule, cls, fmt.Sprintf("%s [scenario %d: %+v]", what, idx, sc), id, obs)
	}

	var mu sync.Mutex
	var restarted atomic.Bool // callbacks run under the master's lock: they must not call back into it
	reached := make(chan struct{})
	reachedOnce := sync.Once{}
	hit := func(p string) {
		if p == sc.Point {
			reachedOnce.Do(func() { close(reached) })
		}
	}
	gate := make(chan struct{})
	var gateOnce sync.Once
	release := func() { gateOnce.Do(func() { close(gate) }) }
	outstanding := map[string]int{}
	nTasks := len(shapes[sc.Shape])
	s.Master.OnLaunch = func(t *simmesos.LaunchedTask) simmesos.LaunchPlan {
		if sc.Point == "launched-not-running" && !restarted.Load() {
			mu.Lock()
			outstanding["LAUNCH"]++
			n := outstanding["LAUNCH"]
			mu.Unlock()
			if n >= nTasks {
				hit("launched-not-running")
			}
			return simmesos.LaunchPlan{Kind: "never"}
		}
		return simmesos.LaunchPlan{Kind: "running", Delay: 30 * time.Millisecond}
	}
	evPoint := map[string]string{"CONFIGURE": "configure-outstanding", "START": "start-outstanding", "STOP": "stop-outstanding", "RESET": "reset-outstanding"}
	s.Master.OnCommand = func(t *simmesos.LaunchedTask, cmd *simmesos.CommandSeen) simmesos.Reply {
		if p, ok := evPoint[cmd.Event]; ok && p == sc.Point && !restarted.Load() {
			mu.Lock()
			outstanding[cmd.Event]++
			n := outstanding[cmd.Event]
			mu.Unlock()
			if n >= nTasks {
				hit(p)
			}
			return simmesos.Reply{Kind: "ok", Gate: gate}
		}
		return simmesos.Reply{Kind: "ok"}
	}
	var reconcileRefused atomic.Bool
	if sc.ReconcileLost {
		s.Master.OnCall = func(call *scheduler.Call, m *simmesos.Master) *simmesos.CallFault {
			if restarted.Load() && call.GetType() == scheduler.Call_RECONCILE && reconcileRefused.CompareAndSwap(false, true) {
				return &simmesos.CallFault{HTTPStatus: 503}
			}
			return nil
		}
	}
	var killLostFor atomic.Value // id of the leftover whose first KILL of the new life was lost
	s.Master.OnKill = func(t *simmesos.LaunchedTask) string {
		if sc.KillLost && restarted.Load() && t.Life == 1 && killLostFor.CompareAndSwap(nil, t.ID) {
			return "ignore"
		}
		if sc.Kind == "crash" && sc.Point == "teardown-first-kill" && !restarted.Load() {
			hit("teardown-first-kill")
			return "ignore" // the core dies before the kill takes effect
		}
		return "killed"
	}

	// ---- first life: the environment's life cycle, in the background ----
	var envID string
	lifeDone := make(chan struct{})
	go func() {
		defer close(lifeDone)
		api := 120 * time.Second
		ctx, cancel := coresim.Ctx(api)
		r, err := s.Client.NewEnvironment(ctx, &pb.NewEnvironmentRequest{WorkflowTemplate: wfName, Vars: map[string]string{}})
		cancel()
		mu.Lock()
		obs.Steps = append(obs.Steps, fmt.Sprintf("NewEnvironment err=%q", truncate(grpcMsg(err), 120)))
		mu.Unlock()
		if err != nil {
			return
		}
		mu.Lock()
		envID = r.GetEnvironment().GetId()
		mu.Unlock()
		hit("configured")
		if sc.Point == "configured" || sc.Point == "configure-outstanding" {
			return
		}
		step := func(op pb.ControlEnvironmentRequest_Optype, after string) bool {
			ctx, cancel := coresim.Ctx(api)
			rr, err := s.Client.ControlEnvironment(ctx, &pb.ControlEnvironmentRequest{Id: r.GetEnvironment().GetId(), Type: op})
			cancel()
			mu.Lock()
			obs.Steps = append(obs.Steps, fmt.Sprintf("%s err=%q state=%s", op, truncate(grpcMsg(err), 120), rr.GetState()))
			mu.Unlock()
			if err != nil {
				return false
			}
			hit(after)
			// the life stops at the point under test (for "<X>-outstanding" points: once that
			// transition has returned), so that whatever happens afterwards is the core's doing
			stopAfter := map[string]string{"start-outstanding": "running", "stop-outstanding": "stopped"}[sc.Point]
			return sc.Point != after && stopAfter != after
		}
		if !step(pb.ControlEnvironmentRequest_START_ACTIVITY, "running") {
			return
		}
		if !step(pb.ControlEnvironmentRequest_STOP_ACTIVITY, "stopped") {
			return
		}
		if sc.Point == "reset-outstanding" {
			step(pb.ControlEnvironmentRequest_RESET, "reset-done")
			return
		}
		ctx, cancel = coresim.Ctx(api)
		_, err = s.Client.DestroyEnvironment(ctx, &pb.DestroyEnvironmentRequest{Id: r.GetEnvironment().GetId()})
		cancel()
		mu.Lock()
		obs.Steps = append(obs.Steps, fmt.Sprintf("DestroyEnvironment err=%q", truncate(grpcMsg(err), 120)))
		mu.Unlock()
		hit("destroyed")
	}()
	select {
	case <-reached:
	case <-time.After(150 * time.Second):
		c.Inconclusive(fmt.Sprintf("scenario %d: point %s not reached (steps %v)", idx, sc.Point, obs.Steps))
		release()
		return
	}
	c.Count("points_reached", 1)
	fid1 := s.Master.FrameworkID()
	var firstLife []string
	for _, t := range s.Master.Tasks() {
		if !t.Terminal {
			firstLife = append(firstLife, t.ID)
		}
	}
	mu.Lock()
	eid := envID
	mu.Unlock()

	if sc.Kind == "crash" {
		s.Master.Note("CRASH", map[string]interface{}{"point": sc.Point})
		s.KillCore()
		restarted.Store(true)
		release()
		<-lifeDone
		c.Count("crashes", 1)
		if v, ok := s.Consul.Get("o2/runtime/aliecs/mesos_fid"); !ok || v == "" {
			fail("FID-NOT-STORED", "no framework id in the configuration store when the core died")
		}
		if err := s.StartCore(); err != nil {
			c.Inconclusive("restart failed: " + truncate(err.Error(), 400))
			return
		}
		// (a) same framework identity
		fids := s.Master.SubscribeFIDs()
		last := fids[len(fids)-1]
		if last != fid1 {
			fail("FID-CHANGED", fmt.Sprintf("second life subscribed with framework id %q, first life had %q", last, fid1))
		}
		// (b) every task of the previous life still alive at the master is killed (bounded: 10 s
		// after the reconciliation call, confirmed)
		deadline := time.Now().Add(10 * time.Second)
		alive := func() []string {
			var a []string
			nt := map[string]bool{}
			for _, id := range s.Master.NonTerminal() {
				nt[id] = true
			}
			for _, id := range firstLife {
				if nt[id] {
					a = append(a, id)
				}
			}
			return a
		}
		for time.Now().Before(deadline) && len(alive()) > 0 {
			time.Sleep(50 * time.Millisecond)
			if sc.KillLost && killLostFor.Load() != nil && len(alive()) == 1 {
				break // only the task whose KILL was lost is left
			}
		}
		if sc.KillLost {
			if killLostFor.Load() == nil {
				if len(firstLife) == 0 {
					return // nothing was left over at this point
				}
				c.Inconclusive(fmt.Sprintf("scenario %d: the new life sent no KILL that could be lost", idx))
				return
			}
			c.Count("kills_lost", 1)
			// a new environment is deployed (the roster is no longer empty), then the stream is dropped
			ctx, cancel := coresim.Ctx(120 * time.Second)
			_, nerr := s.Client.NewEnvironment(ctx, &pb.NewEnvironmentRequest{WorkflowTemplate: wfName, Vars: map[string]string{}})
			cancel()
			mu.Lock()
			obs.Steps = append(obs.Steps, fmt.Sprintf("second life: NewEnvironment err=%q", truncate(grpcMsg(nerr), 120)))
			mu.Unlock()
			life1 := s.Master.Life()
			s.Master.DropStream()
			dl := time.Now().Add(120 * time.Second)
			for time.Now().Before(dl) && (s.Master.Life() == life1 || !s.Master.Subscribed()) {
				time.Sleep(20 * time.Millisecond)
			}
			if s.Master.Life() == life1 {
				c.Inconclusive("core did not resubscribe within 120 s")
				return
			}
			deadline = time.Now().Add(10 * time.Second)
			for time.Now().Before(deadline) && len(alive()) > 0 {
				time.Sleep(50 * time.Millisecond)
			}
		}
		if sc.ReconcileLost {
			if !reconcileRefused.Load() {
				c.Inconclusive(fmt.Sprintf("scenario %d: the new life sent no RECONCILE call that could be refused", idx))
				return
			}
			c.Count("reconcile_calls_refused", 1)
		}
		c.Count("first_life_tasks", int64(len(firstLife)))
		if a := alive(); len(a) > 0 {
			waitQuiet(s, 2*time.Second, 6*time.Second)
			if a2 := alive(); len(a2) > 0 {
				fail("SURVIVOR", fmt.Sprintf("%d task(s) of the previous life are still alive at the master after the new life's reconciliation was answered and the master is quiescent: %v", len(a2), a2))
			}
		} else {
			c.Count("first_life_tasks_killed", int64(len(firstLife)))
		}
		ids, err := listEnvIDs(s)
		if err == nil && len(ids) > 0 {
			c.Count("second_life_lists_environments", 1)
		}
		return
	}

	// ---- reconnection: the stream is dropped and re-established with the core alive ----
	life0 := s.Master.Life()
	killsBefore := map[string]int{}
	for _, t := range s.Master.Tasks() {
		killsBefore[t.ID] = t.KillAsked
	}
	stBefore := ""
	if eid != "" {
		stBefore, _ = envState(s, eid)
	}
	s.Master.Note("DROP", map[string]interface{}{"point": sc.Point})
	s.Master.DropStream()
	c.Count("reconnections", 1)
	deadline := time.Now().Add(120 * time.Second) // generous watchdog: a loaded machine is not a verdict
	for time.Now().Before(deadline) && (s.Master.Life() == life0 || !s.Master.Subscribed()) {
		time.Sleep(20 * time.Millisecond)
	}
	if s.Master.Life() == life0 {
		c.Inconclusive("core did not resubscribe within 120 s")
		release()
		return
	}
	fids := s.Master.SubscribeFIDs()
	if fids[len(fids)-1] != fid1 {
		fail("FID-CHANGED", fmt.Sprintf("resubscription used framework id %q, first subscription had %q", fids[len(fids)-1], fid1))
	}
	// give the reconciliation answers time to be processed, then let outstanding commands finish
	time.Sleep(1500 * time.Millisecond)
	release()
	<-lifeDone
	waitQuiet(s, 500*time.Millisecond, 10*time.Second)
	// a cleanup of unowned tasks after the reconciliation answers were processed: the tasks of the live
	// environment are still owned (the answers carry no executor id) and must not be touched by it
	{
		ctx, cancel := coresim.Ctx(60 * time.Second)
		_, cerr := s.Client.CleanupTasks(ctx, &pb.CleanupTasksRequest{})
		cancel()
		mu.Lock()
		obs.Steps = append(obs.Steps, fmt.Sprintf("CleanupTasks err=%q", truncate(grpcMsg(cerr), 120)))
		mu.Unlock()
		c.Count("cleanups_after_reconnection", 1)
		waitQuiet(s, 300*time.Millisecond, 10*time.Second)
	}
	mu.Lock()
	eid = envID
	mu.Unlock()
	for _, t := range s.Master.Tasks() {
		if t.KillAsked > killsBefore[t.ID] && t.EnvID != "" {
			// the environment is alive (nobody destroyed it): its tasks must not be killed
			fail("OWNED-TASK-KILLED", fmt.Sprintf("after a mere reconnection task %s owned by live environment %s received a KILL", t.RolePath, t.EnvID))
			break
		}
	}
	if eid != "" {
		st, err := envState(s, eid)
		want := map[string]string{"configured": "CONFIGURED", "running": "RUNNING", "configure-outstanding": "CONFIGURED", "start-outstanding": "RUNNING", "stop-outstanding": "CONFIGURED"}[sc.Point]
		if err != nil || (st != want && st != stBefore) {
			fail("ENV-DISTURBED", fmt.Sprintf("after a mere reconnection the environment is in state %q (%v), expected %s", st, grpcMsg(err), want))
		} else {
			c.Count("reconnect_env_unchanged", 1)
		}
	} else if !strings.Contains(strings.Join(obs.Steps, " "), `err=""`) {
		fail("ENV-DISTURBED", fmt.Sprintf("the creation that was in progress during a mere reconnection failed: %v", obs.Steps))
	}
}
