// mon-c16: C16 — the task state reported after a transition is the device's real state.
//
// Real executorcmd.NewClient -> real gRPC over loopback -> fake OCC device (device.go).
// The space {transitioner} x {event} x {source state} x {outcome of every device step the
// code issues} is enumerated exhaustively by depth-first expansion of the steps the
// code actually requests: a run with script prefix P pads every further step with its
// first available outcome; that run is itself the pattern P+padding, and every step
// at or after len(P) is a branching point for the remaining outcomes. Each Commit call
// is therefore exactly one distinct complete pattern.
package main

import (
	"fmt"
	"io"
	"os"
	"strings"

	"github.com/AliceO2Group/Control/common/controlmode"
	"github.com/AliceO2Group/Control/common/utils/uid"
	"github.com/AliceO2Group/Control/core/controlcommands"
	"github.com/AliceO2Group/Control/executor/executorcmd"
	mesos "github.com/mesos/mesos-go/api/v1/lib"
	"github.com/sirupsen/logrus"

	"verif/harness/vlib"
)

func main() {
	if len(os.Args) < 2 || (os.Args[1] != "C16" && os.Args[1] != "C16A") {
		fmt.Fprintln(os.Stderr, "usage: mon-c16 C16A [flags]")
		os.Exit(64)
	}
	runC16()
}

// ---------- the O2 side of the statement, written from properties.jsonl ----------

var o2Events = []struct{ Evt, Dst string }{
	{"START", "RUNNING"},
	{"STOP", "CONFIGURED"},
	{"CONFIGURE", "CONFIGURED"},
	{"RESET", "STANDBY"},
	{"EXIT", "DONE"},
	{"RECOVER", "STANDBY"}, // accepted by both transitioners, never sent by the core
	{"GO_ERROR", "ERROR"},  // idem
}

// DONE is terminal (no task transition leaves it, the device process exits on
// reaching it), so it is a destination but never a source.
var o2Sources = []string{"STANDBY", "CONFIGURED", "RUNNING", "ERROR"}

// image of a device state / device state of an O2 state, per the statement:
// STANDBY=IDLE, CONFIGURED=READY, RUNNING, ERROR, DONE=EXITING; identity for direct control.
var fmqImage = map[string]string{fIDLE: "STANDBY", fREADY: "CONFIGURED", fRUNNING: "RUNNING", fERROR: "ERROR", fEXITING: "DONE"}
var fmqPre = map[string]string{"STANDBY": fIDLE, "CONFIGURED": fREADY, "RUNNING": fRUNNING, "ERROR": fERROR, "DONE": fEXITING}
var directStates = map[string]bool{"STANDBY": true, "CONFIGURED": true, "RUNNING": true, "ERROR": true, "DONE": true}

func image(mode, dev string) (string, bool) {
	if mode == "fairmq" {
		s, ok := fmqImage[dev]
		return s, ok
	}
	return dev, directStates[dev]
}

func preimage(mode, o2 string) string {
	if mode == "fairmq" {
		return fmqPre[o2]
	}
	return o2
}

// rollback event the code is meant to send when a multi-step FairMQ transition is stuck.
var rollbackEvt = map[string]string{"CONFIGURE": "RESET DEVICE", "RESET": "INIT TASK", "EXIT": "INIT TASK"}

// ---------- engine ----------

type root struct {
	Mode string `json:"mode"`
	Evt  string `json:"evt"`
	Src  string `json:"src"`
	Dst  string `json:"dst"`
}

type caseDesc struct {
	root
	Prefix []string `json:"prefix"`
	Pad    string   `json:"pad"`
}

type witness struct {
	caseDesc
	Script   string    `json:"script"`
	Steps    []stepRec `json:"steps"`
	Reported string    `json:"reported"`
	Err      string    `json:"err"`
	Device   string    `json:"device_state_after"`
}

type engine struct {
	c     *vlib.Ctx
	dev   map[string]*fakeDevice
	cl    map[string]*executorcmd.RpcClient
	args  map[string]string
	envId uid.ID
}

const taskID = "verif-c16-task"

func runC16() {
	c := vlib.Start(os.Args[1])
	defer c.Finish()

	logrus.SetOutput(io.Discard)
	logrus.SetLevel(logrus.PanicLevel)
	quiet := logrus.New()
	quiet.SetOutput(io.Discard)
	quiet.SetLevel(logrus.PanicLevel)

	e := &engine{c: c, dev: map[string]*fakeDevice{}, cl: map[string]*executorcmd.RpcClient{},
		args: map[string]string{"verif.key": "v"}, envId: uid.New()}
	for _, m := range []struct {
		model *devModel
		cm    controlmode.ControlMode
	}{{&fmqModel, controlmode.FAIRMQ}, {&directModel, controlmode.DIRECT}} {
		dev, port, stop, err := serve(m.model)
		if err != nil {
			c.Inconclusive("fake device: " + err.Error())
			return
		}
		defer stop()
		cl := executorcmd.NewClient(port, m.cm, executorcmd.ProtobufTransport, quiet.WithField("id", "verif-c16-"+m.model.Name))
		if cl == nil {
			c.Inconclusive("executorcmd.NewClient returned nil for " + m.model.Name)
			return
		}
		defer cl.Close()
		e.dev[m.model.Name], e.cl[m.model.Name] = dev, cl
	}

	// roots, modes interleaved so that batches are balanced; the seed only rotates the
	// list, i.e. changes which batch runs what (the enumeration itself has no randomness)
	var roots []root
	for _, ev := range o2Events {
		for _, src := range o2Sources {
			for _, mode := range []string{"fairmq", "direct"} {
				roots = append(roots, root{mode, ev.Evt, src, ev.Dst})
			}
		}
	}
	rot := int(uint64(c.Seed) % uint64(len(roots)))
	roots = append(roots[rot:], roots[:rot]...)
	lo, hi := c.Slice(len(roots))
	for _, r := range roots[lo:hi] {
		c.Count("roots", 1)
		e.explore(r, nil)
	}
}

func (e *engine) explore(r root, prefix []string) {
	res := e.run(r, prefix)
	// branch at every scripted step at or after the prefix
	k := 0
	var consumed []string
	type bp struct {
		at    int
		state string
		evt   string
	}
	var bps []bp
	for _, s := range res.Steps {
		if !s.Scripted {
			continue
		}
		if k >= len(prefix) {
			bps = append(bps, bp{k, s.DevBefore, s.Evt})
		}
		consumed = append(consumed, s.Outcome)
		k++
	}
	if k < len(prefix) {
		e.c.Inconclusive(fmt.Sprintf("non-deterministic step sequence: %v consumed %d of prefix %v", r, k, prefix))
		return
	}
	model := e.dev[r.Mode].model
	for _, b := range bps {
		for _, o := range model.available(b.state, b.evt)[1:] {
			next := append(append([]string(nil), consumed[:b.at]...), o)
			e.explore(r, next)
		}
	}
}

// isXport: the request failed in transport, before or after the device acted.
func isXport(o string) bool { return o == oXport || o == oXportLate || o == oXportErr }

func canon(s string) string { return strings.ReplaceAll(s, " ", "_") }

func scriptString(steps []stepRec) string {
	if len(steps) == 0 {
		return "no-device-step"
	}
	parts := make([]string, len(steps))
	for i, s := range steps {
		parts[i] = canon(s.Evt) + "=" + s.Outcome
	}
	return strings.Join(parts, ",")
}

func orEmpty(s string) string {
	if s == "" {
		return "empty"
	}
	return canon(s)
}

// run executes one pattern against the real transitioner and judges it.
func (e *engine) run(r root, prefix []string) witness {
	c := e.c
	dev, cl := e.dev[r.Mode], e.cl[r.Mode]
	desc := caseDesc{root: r, Prefix: prefix, Pad: "first available outcome (done if the device table has the row, else refused)"}
	id := c.Case(desc)
	dev.reset(preimage(r.Mode, r.Src), prefix)

	// the executor's own path: ExecutorCommand_Transition.Commit -> Transitioner.Commit ->
	// RpcClient.doTransition -> gRPC; what is judged is the response the executor would send
	cmd := executorcmd.NewLocalExecutorCommand_Transition(cl.Transitioner, e.envId,
		[]controlcommands.MesosCommandTarget{{TaskId: mesos.TaskID{Value: taskID}}}, r.Src, r.Evt, r.Dst, nil)
	cmd.Arguments = e.args
	newState, commitErr := cmd.Commit()
	resp := cmd.PrepareResponse(commitErr, newState, taskID)
	reported, err := resp.CurrentState, resp.Err()
	if (commitErr == nil) != (err == nil) || reported != newState {
		c.Violation("RESPONSE", r.Mode+"/"+r.Evt+"-from-"+r.Src+"/response-differs-from-commit",
			fmt.Sprintf("Commit returned (%q, %v) but the prepared response carries (%q, %v)", newState, commitErr, reported, err), id, desc)
	}

	d, steps := dev.snapshot()
	w := witness{caseDesc: desc, Script: scriptString(steps), Steps: steps, Reported: reported, Device: d}
	if err != nil {
		w.Err = err.Error()
	}
	c.Nontrivial(vlib.Hash(r.Mode, r.Evt, r.Src, w.Script))
	c.Count("patterns", 1)
	c.Count("patterns_"+r.Mode, 1)
	c.Count("device_requests", int64(len(steps)))
	if len(steps) > 3 && strings.Contains(w.Script, oRefused) {
		c.Sample(w)
	}

	hasBogus := false
	var last *stepRec
	for i := range steps {
		s := &steps[i]
		switch s.Outcome {
		case oBogusEvt, oBogusTrig, oBogusOk:
			hasBogus = true
		case oRejected:
			c.Count("requests_rejected_src_mismatch", 1)
		case "unknown-event":
			c.Inconclusive("the code sent an event unknown to the device model: " + s.Evt)
		}
		if s.Scripted {
			c.Count("outcome_"+s.Outcome, 1)
		}
		if (s.Outcome == oXportLate || s.Outcome == oXportErr) && s.DevBefore != s.DevAfter {
			c.Count("reply_lost_after_device_moved", 1)
		}
		last = s
	}
	if hasBogus {
		c.Count("patterns_with_nonconforming_reply", 1)
	} else {
		for _, s := range steps {
			if s.Outcome == oRejected {
				c.Count("requests_rejected_src_mismatch_conforming_device", 1)
			}
		}
	}
	if err == nil {
		c.Count("success_reports", 1)
	}
	head := r.Mode + "/" + r.Evt + "-from-" + r.Src + "/" + w.Script

	// SUCCESS: nil error only if the device is in the destination's device state
	if err == nil && d != preimage(r.Mode, r.Dst) {
		c.Violation("SUCCESS", head+"->nil-error-device-"+canon(d)+"-dst-"+r.Dst,
			fmt.Sprintf("%s %s from %s to %s, device steps [%s]: success (nil error, state %q) reported while the device is in %q, not in %q",
				r.Mode, r.Evt, r.Src, r.Dst, w.Script, reported, d, preimage(r.Mode, r.Dst)), id, w)
	}
	if hasBogus {
		// the device misreported its own state: only the success clause is judged
		return w
	}

	// REPORT: reported state is the image of the device's real state
	img, has := image(r.Mode, d)
	lastXport := last != nil && isXport(last.Outcome)
	okReport := (has && reported == img) || (reported == "" && (!has || lastXport))
	if !okReport {
		c.Violation("REPORT", head+"->reported-"+orEmpty(reported)+"-device-"+canon(d),
			fmt.Sprintf("%s %s from %s to %s, device steps [%s]: executor reports %q (err: %s) while the device is in %q (image %q)",
				r.Mode, r.Evt, r.Src, r.Dst, w.Script, reported, w.Err, d, img), id, w)
	}

	// ROLLBACK: stuck in an intermediate state from which the device accepts the rollback
	if rb, multi := rollbackEvt[r.Evt]; multi && r.Mode == "fairmq" && !has && d != preimage(r.Mode, r.Src) {
		if _, accepts := dev.model.Table[d][rb]; accepts && !lastXport {
			offered := false
			for i := len(steps) - 1; i >= 0; i-- {
				s := steps[i]
				if s.DevAfter != d {
					break
				}
				if s.DevBefore == d && s.Scripted && s.Evt == rb {
					offered = true
					break
				}
				if s.DevBefore != d {
					break // this is the step that brought the device into d
				}
			}
			if !offered {
				c.Violation("ROLLBACK", head+"->no-rollback-device-"+canon(d),
					fmt.Sprintf("%s %s from %s, device steps [%s]: the transition did not complete, the device sits in %q which accepts %q, but no such request was made; device not back in %q",
						r.Mode, r.Evt, r.Src, w.Script, d, rb, preimage(r.Mode, r.Src)), id, w)
			}
		}
	}
	if rb, multi := rollbackEvt[r.Evt]; multi && r.Mode == "fairmq" {
		for _, s := range steps {
			if s.Scripted && s.Evt == rb {
				c.Count("rollback_requests", 1)
				if s.Outcome == oDone {
					c.Count("rollbacks_done", 1)
				}
			}
		}
	}
	return w
}
