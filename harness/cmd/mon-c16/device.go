package main

// Fake OCC device: an in-process gRPC Occ server whose Transition handler follows
// the conventions of occ/plugin/OccFMQCommon.cxx (FairMQ devices) and
// occ/occlib/OccServer.cxx (directly controlled tasks):
//
//   * srcState != current state            -> gRPC INVALID_ARGUMENT, nothing happens
//   * reply.state           = state the device is in after the request
//   * reply.transitionEvent = the requested event
//   * reply.ok              = (reply.state == EXPECTED_FINAL_STATE[event])
//   * reply.trigger         = DEVICE_ERROR if ERROR, EXECUTOR if the expected final
//                             state was reached, DEVICE_INTENTIONAL otherwise
//
// What happens to the device on each request whose srcState matched is read from
// a per-run outcome script (one entry per such request, consumed in order).

import (
	"context"
	"fmt"
	"net"
	"sync"

	pb "github.com/AliceO2Group/Control/executor/protos"
	"google.golang.org/grpc"
	"google.golang.org/grpc/codes"
	"google.golang.org/grpc/status"
)

// Outcomes of one device step.
const (
	oDone      = "done"             // the device performs the transition of its table
	oRefused   = "refused"          // the device stays where it is and says so
	oError     = "error"            // the device ends in ERROR and says so
	oXport     = "xport"            // the request fails in transport BEFORE the device acted (gRPC UNAVAILABLE, device untouched)
	oXportLate = "xport-late"       // the device performs the transition of its table, then the reply is lost (UNAVAILABLE)
	oXportErr  = "xport-late-error" // the device ends in ERROR, then the reply is lost (UNAVAILABLE)
	oBogusEvt  = "bogus-event"      // conformance: device untouched, reply claims success but carries another event
	oBogusTrig = "bogus-trigger"    // conformance: device untouched, reply claims success but trigger != EXECUTOR
	oBogusOk   = "bogus-ok"         // conformance: device untouched and reported truthfully, but the reply says ok / EXECUTOR
	oRejected  = "rejected"         // not scriptable: srcState mismatch -> INVALID_ARGUMENT (device's own behaviour)
)

// FairMQ device states (fair::mq::State names as the plugin prints them).
const (
	fIDLE     = "IDLE"
	fINITDEV  = "INITIALIZING DEVICE"
	fINITED   = "INITIALIZED"
	fBOUND    = "BOUND"
	fDEVREADY = "DEVICE READY"
	fREADY    = "READY"
	fRUNNING  = "RUNNING"
	fERROR    = "ERROR"
	fEXITING  = "EXITING"
)

type devModel struct {
	Name   string
	Table  map[string]map[string]string // state -> event -> state reached (auto-transitions folded)
	Final  map[string]string            // EXPECTED_FINAL_STATE
	Other  string                       // an event name used by the bogus-event outcome
	Other2 string                       // used when the request already is Other
}

// FairMQ state machine (fairmq/StateMachine.cxx), with BINDING, CONNECTING,
// INITIALIZING TASK, RESETTING TASK, RESETTING DEVICE folded into their targets the
// way OccFMQCommon.cxx waits them out.
var fmqModel = devModel{
	Name: "fairmq",
	Table: map[string]map[string]string{
		fIDLE:     {"INIT DEVICE": fINITDEV, "END": fEXITING},
		fINITDEV:  {"COMPLETE INIT": fINITED},
		fINITED:   {"BIND": fBOUND, "RESET DEVICE": fIDLE},
		fBOUND:    {"CONNECT": fDEVREADY, "RESET DEVICE": fIDLE},
		fDEVREADY: {"INIT TASK": fREADY, "RESET DEVICE": fIDLE},
		fREADY:    {"RUN": fRUNNING, "RESET TASK": fDEVREADY},
		fRUNNING:  {"STOP": fREADY},
		fERROR:    {"END": fEXITING},
		fEXITING:  {},
	},
	Final: map[string]string{ // occ/plugin/OccFMQCommon.h
		"INIT DEVICE":   fINITDEV,
		"COMPLETE INIT": fINITED,
		"BIND":          fBOUND,
		"CONNECT":       fDEVREADY,
		"INIT TASK":     fREADY,
		"RUN":           fRUNNING,
		"STOP":          fREADY,
		"RESET TASK":    fDEVREADY,
		"RESET DEVICE":  fIDLE,
		"END":           fEXITING,
		"ERROR FOUND":   fERROR,
	},
	Other: "ERROR FOUND", Other2: "END",
}

// occlib state machine (occ/occlib/OccServer.cxx:processStateTransition), O2 events only.
var directModel = devModel{
	Name: "direct",
	Table: map[string]map[string]string{
		"STANDBY":    {"CONFIGURE": "CONFIGURED", "EXIT": "DONE"},
		"CONFIGURED": {"START": "RUNNING", "RESET": "STANDBY", "EXIT": "DONE"},
		"RUNNING":    {"STOP": "CONFIGURED"},
		"ERROR":      {"RECOVER": "STANDBY", "EXIT": "DONE"},
		"DONE":       {},
	},
	Final: map[string]string{ // occ/occlib/OccServer.h
		"CONFIGURE": "CONFIGURED",
		"RESET":     "STANDBY",
		"START":     "RUNNING",
		"STOP":      "CONFIGURED",
		"EXIT":      "DONE",
		"GO_ERROR":  "ERROR",
		"RECOVER":   "STANDBY",
	},
	Other: "GO_ERROR", Other2: "RECOVER",
}

// available lists the outcomes enumerated for a request of evt in state st. The
// first entry is the one used to pad a script prefix.
func (m *devModel) available(st, evt string) []string {
	out := make([]string, 0, 8)
	_, row := m.Table[st][evt]
	if row {
		out = append(out, oDone)
	}
	out = append(out, oRefused, oError, oXport)
	if row {
		out = append(out, oXportLate)
	}
	return append(out, oXportErr, oBogusEvt, oBogusTrig, oBogusOk)
}

// stepRec is one Transition request as the device saw it.
type stepRec struct {
	Evt       string `json:"evt"`
	Src       string `json:"src"`
	DevBefore string `json:"dev_before"`
	DevAfter  string `json:"dev_after"`
	Outcome   string `json:"outcome"`
	Scripted  bool   `json:"scripted"` // false: rejected for srcState mismatch (no script entry consumed)
	Padded    bool   `json:"padded"`   // outcome taken from the padding rule, not from the prefix
}

type fakeDevice struct {
	pb.UnimplementedOccServer
	model *devModel

	mu     sync.Mutex
	state  string
	prefix []string
	pos    int
	steps  []stepRec
}

func (d *fakeDevice) reset(state string, prefix []string) {
	d.mu.Lock()
	d.state = state
	d.prefix = append([]string(nil), prefix...)
	d.pos = 0
	d.steps = nil
	d.mu.Unlock()
}

func (d *fakeDevice) snapshot() (string, []stepRec) {
	d.mu.Lock()
	defer d.mu.Unlock()
	return d.state, append([]stepRec(nil), d.steps...)
}

func (d *fakeDevice) GetState(context.Context, *pb.GetStateRequest) (*pb.GetStateReply, error) {
	d.mu.Lock()
	defer d.mu.Unlock()
	return &pb.GetStateReply{State: d.state, Pid: 1}, nil
}

func (d *fakeDevice) Transition(_ context.Context, req *pb.TransitionRequest) (*pb.TransitionReply, error) {
	d.mu.Lock()
	defer d.mu.Unlock()
	evt, src := req.GetTransitionEvent(), req.GetSrcState()
	cur := d.state
	if src != cur {
		d.steps = append(d.steps, stepRec{Evt: evt, Src: src, DevBefore: cur, DevAfter: cur, Outcome: oRejected})
		return nil, status.Error(codes.InvalidArgument,
			"transition not possible: state mismatch: source: "+src+" current: "+cur)
	}
	fin, known := d.model.Final[evt]
	if !known {
		d.steps = append(d.steps, stepRec{Evt: evt, Src: src, DevBefore: cur, DevAfter: cur, Outcome: "unknown-event"})
		return nil, status.Error(codes.InvalidArgument, "argument "+evt+" is not a valid transition name")
	}
	var o string
	padded := false
	if d.pos < len(d.prefix) {
		o = d.prefix[d.pos]
	} else {
		o = d.model.available(cur, evt)[0]
		padded = true
	}
	d.pos++
	next, inTable := d.model.Table[cur][evt]
	rec := stepRec{Evt: evt, Src: src, DevBefore: cur, Outcome: o, Scripted: true, Padded: padded}
	var reply *pb.TransitionReply
	var err error
	switch o {
	case oDone:
		if inTable {
			d.state = next
		}
		reply = d.faithfulReply(evt, fin)
	case oRefused:
		reply = d.faithfulReply(evt, fin)
	case oError:
		d.state = d.errorState()
		reply = d.faithfulReply(evt, fin)
	case oXport:
		err = status.Error(codes.Unavailable, "injected transport error")
	case oXportLate:
		if inTable {
			d.state = next
		}
		err = status.Error(codes.Unavailable, "injected transport error: reply lost")
	case oXportErr:
		d.state = d.errorState()
		err = status.Error(codes.Unavailable, "injected transport error: reply lost")
	case oBogusEvt:
		other := d.model.Other
		if other == evt {
			other = d.model.Other2
		}
		reply = &pb.TransitionReply{Ok: true, State: fin, TransitionEvent: other, Trigger: pb.StateChangeTrigger_EXECUTOR}
	case oBogusTrig:
		reply = &pb.TransitionReply{Ok: true, State: fin, TransitionEvent: evt, Trigger: pb.StateChangeTrigger_DEVICE_INTENTIONAL}
	case oBogusOk:
		reply = &pb.TransitionReply{Ok: true, State: cur, TransitionEvent: evt, Trigger: pb.StateChangeTrigger_EXECUTOR}
	default:
		err = status.Error(codes.Internal, "harness: unknown outcome "+o)
	}
	rec.DevAfter = d.state
	d.steps = append(d.steps, rec)
	return reply, err
}

func (d *fakeDevice) errorState() string { return "ERROR" }

func (d *fakeDevice) faithfulReply(evt, fin string) *pb.TransitionReply {
	r := &pb.TransitionReply{State: d.state, TransitionEvent: evt, Ok: d.state == fin}
	switch {
	case d.state == d.errorState():
		r.Trigger = pb.StateChangeTrigger_DEVICE_ERROR
	case d.state == fin:
		r.Trigger = pb.StateChangeTrigger_EXECUTOR
	default:
		r.Trigger = pb.StateChangeTrigger_DEVICE_INTENTIONAL
	}
	return r
}

// serve starts the device on a loopback port chosen by the kernel.
func serve(model *devModel) (*fakeDevice, uint64, func(), error) {
	lis, err := net.Listen("tcp", "127.0.0.1:0")
	if err != nil {
		return nil, 0, nil, fmt.Errorf("listen: %w", err)
	}
	dev := &fakeDevice{model: model, state: ""}
	srv := grpc.NewServer()
	pb.RegisterOccServer(srv, dev)
	go func() { _ = srv.Serve(lis) }()
	port := uint64(lis.Addr().(*net.TCPAddr).Port)
	return dev, port, srv.Stop, nil
}
