// mon-c19: runtime monitor for property C19 (event writer: exactly-once, per
// producer FIFO, bounded batches, producers independent of the broker, partition
// key per environment, flush on shutdown). Drives the real KafkaWriter built by
// the production constructor (hook VerifNewWriter only swaps the sink).
package main

import (
	"fmt"
	"os"
)

func main() {
	if len(os.Args) < 2 {
		fmt.Fprintln(os.Stderr, "usage: mon-c19 C19 [flags]")
		os.Exit(64)
	}
	switch os.Args[1] {
	case "C19":
		runC19()
	default:
		fmt.Fprintln(os.Stderr, "unknown property", os.Args[1])
		os.Exit(64)
	}
}
