package main

import (
	"context"
	"fmt"
	"math/rand"
	"runtime"
	"sync"
	"sync/atomic"
	"time"

	"github.com/AliceO2Group/Control/common/event"
	pb "github.com/AliceO2Group/Control/common/protos"
	"github.com/segmentio/kafka-go"

	"verif/harness/vlib"
)

// ---------------------------------------------------------------------------
// What one run is.
//
// A run builds one real KafkaWriter (production constructor, recording sink),
// starts P producers that publish tagged events, waits until every WriteEvent
// call has returned, calls Close() at the instant chosen by the close mode and,
// once Close() has returned, judges the recorded batches offline (oracle.go).
//
// Wall-clock is used only for (a) shaping sleeps that decide nothing and
// (b) watchdogs: a watchdog expiry is a violation only when the sink is
// provably stalled by the harness AND a second sample shows zero progress
// (a logical dependency on the broker); otherwise it is inconclusive.
// ---------------------------------------------------------------------------

const (
	watchdog      = 60 * time.Second
	confirmation  = 10 * time.Second
	microPerChunk = 1000
	batchBound    = 100 // "pops up to 100" (properties.jsonl, mechanism) / PopMultiple(100)
)

var (
	pNumbers   = []int{1, 4, 32}
	patterns   = []string{"steady", "burst", "pauses"}
	sinks      = []string{"fast", "lat1ms", "gated"}
	closeModes = []string{"after-last", "full-fifo", "idle"}
)

type spec struct {
	Idx       int    `json:"idx"`
	P         int    `json:"producers"`
	Pattern   string `json:"pattern"`
	Sink      string `json:"sink"`
	CloseMode string `json:"close"`
	Total     int    `json:"total"`
	Chunk     int    `json:"chunk"`           // pauses: events between two sleeps
	LatMS     int    `json:"sink_latency_ms"` // sink "slow": duration of every write call
	HoldAt    int    `json:"hold_at_batch"`   // -1: the sink never stalls
	ShapeUS   int    `json:"shape_us"`        // full-fifo: delay between calling Close and reopening the sink
	IdleUS    int    `json:"idle_us"`         // idle: delay between last delivery and Close
	Envs      int    `json:"envs"`
	RandSeed  int64  `json:"rand_seed"`
}

type pubRec struct{ start, end int64 }

type batchRec struct {
	stamp int64 // logical time at which the write function was entered (= handed to the broker)
	msgs  []kafka.Message
}

// sink is the fake broker.
type sink struct {
	lat    time.Duration
	holdAt int

	mu        sync.Mutex
	batches   []batchRec
	nb        int   // batches handed over (kept after the contents were judged and dropped)
	delivered int64 // messages
	judged    bool
	holding   bool
	released  bool
	release   chan struct{}
}

func newSink(sp spec) *sink {
	s := &sink{holdAt: sp.HoldAt, release: make(chan struct{})}
	switch sp.Sink {
	case "lat1ms":
		s.lat = time.Millisecond
	case "slow":
		s.lat = time.Duration(sp.LatMS) * time.Millisecond
	}
	return s
}

func (s *sink) write(_ context.Context, msgs ...kafka.Message) error {
	st := vlib.Seq()
	cp := make([]kafka.Message, len(msgs))
	copy(cp, msgs)
	s.mu.Lock()
	idx := s.nb
	s.nb++
	if !s.judged {
		s.batches = append(s.batches, batchRec{stamp: st, msgs: cp})
	}
	s.delivered += int64(len(msgs))
	hold := idx == s.holdAt && !s.released
	if hold {
		s.holding = true
	}
	s.mu.Unlock()
	if hold {
		<-s.release
		s.mu.Lock()
		s.holding = false
		s.mu.Unlock()
	}
	if s.lat > 0 {
		time.Sleep(s.lat)
	}
	return nil
}

func (s *sink) open() {
	s.mu.Lock()
	if !s.released {
		s.released = true
		close(s.release)
	}
	s.mu.Unlock()
}

func (s *sink) isHolding() bool {
	s.mu.Lock()
	defer s.mu.Unlock()
	return s.holding
}

func (s *sink) counts() (batches int, msgs int64) {
	s.mu.Lock()
	defer s.mu.Unlock()
	return s.nb, s.delivered
}

// snapshot hands the recorded batches to the oracle; later batches (there must
// be none: Close() has returned) are only counted, see checkLate.
func (s *sink) snapshot() []batchRec {
	s.mu.Lock()
	defer s.mu.Unlock()
	out := s.batches
	s.batches = nil
	s.judged = true
	return out
}

// waitDone waits for ch. If it does not fire within the watchdog it takes a
// progress sample, waits the confirmation interval and takes a second one.
// stuck == true means: not done and no progress at all between the samples.
func waitDone(ch <-chan struct{}, progress func() int64) (done, stuck bool) {
	t := time.NewTimer(watchdog)
	defer t.Stop()
	select {
	case <-ch:
		return true, false
	case <-t.C:
	}
	a := progress()
	t2 := time.NewTimer(confirmation)
	defer t2.Stop()
	select {
	case <-ch:
		return true, false
	case <-t2.C:
	}
	return false, progress() == a
}

// ---------------------------------------------------------------------------

type lateWatch struct {
	s      *sink
	n      int
	caseID int64
	sp     spec
}

var (
	lateMu   sync.Mutex
	lateList []lateWatch
)

func makeSpec(c *vlib.Ctx, i int, combo int) spec {
	r := c.SubRand(int64(i))
	// SubRand mixes in the batch number: the spec of run i is a function of
	// (seed, tier, nbatch, i), which is what a replay re-executes with.
	sp := spec{Idx: i, HoldAt: -1}
	sp.P = pNumbers[combo%3]
	sp.Pattern = patterns[(combo/3)%3]
	sp.Sink = sinks[(combo/9)%3]
	sp.CloseMode = closeModes[(combo/27)%3]
	sp.Envs = 1 + r.Intn(3)
	sp.RandSeed = r.Int63()
	switch sp.Pattern {
	case "steady":
		sp.Total = sp.P * (40 + r.Intn(261)) // <= 9600: within the 10 000 channel
	case "burst":
		sp.Total = 20000 + r.Intn(2001) // exceeds the 10 000 channel
	case "pauses":
		sp.Chunk = 5 + r.Intn(56)
		sp.Total = sp.P * sp.Chunk * (3 + r.Intn(3)) // <= 9600
	}
	switch {
	case sp.Sink == "gated":
		sp.HoldAt = 0
	case sp.CloseMode == "full-fifo":
		// latency spike: the sink stalls at its k-th batch until Close was called
		sp.HoldAt = 1 + r.Intn(3)
	}
	sp.ShapeUS = []int{0, 200, 1000, 5000, 20000}[r.Intn(5)]
	sp.IdleUS = []int{0, 500, 3000}[r.Intn(3)]
	return sp
}

func makeSlowSpec(c *vlib.Ctx, i int) spec {
	r := c.SubRand(int64(3000000 + i))
	sp := spec{Idx: 3000000 + i, Pattern: "slow-flush", Sink: "slow", CloseMode: "after-last", HoldAt: -1}
	sp.P = []int{1, 4}[r.Intn(2)]
	sp.LatMS = 600 + r.Intn(401)
	// about 7 s worth of full batches, within 800..1200 events
	sp.Total = 7000 * batchBound / sp.LatMS
	sp.Total += r.Intn(41) - 20
	if sp.Total < 800 {
		sp.Total = 800
	}
	if sp.Total > 1200 {
		sp.Total = 1200
	}
	sp.Envs = 1 + r.Intn(3)
	sp.RandSeed = r.Int63()
	return sp
}

func runC19() {
	c := vlib.Start("C19")
	defer c.Finish()

	if c.Replay != "" {
		var sp spec
		if err := c.ReadReplay(&sp); err != nil || sp.P == 0 {
			c.Inconclusive(fmt.Sprintf("cannot read replay witness: %v", err))
			return
		}
		if sp.Pattern == "registry" {
			var rs registrySpec
			if err := c.ReadReplay(&rs); err != nil || rs.Topics == 0 {
				c.Inconclusive(fmt.Sprintf("cannot read registry replay witness: %v", err))
				return
			}
			registryReplay(c, rs)
			return
		}
		// the schedule is not part of the witness: repeat the recorded run
		reps := 10
		switch sp.Pattern {
		case "micro":
			reps = 100000
		case "slow-flush":
			reps = 2
		}
		id := c.Case(sp)
		for k := 0; k < reps; k++ {
			if !runOne(c, sp, id, k) {
				break
			}
		}
		checkLate(c)
		return
	}

	n, microChunks, registryChunks, slowRuns := 60, 12, 18, 2
	if !vlib.Quick(c) {
		n, microChunks, registryChunks, slowRuns = 2000, 320, 320, 16
	}
	registrySetup() // viper + log level, before any writer exists

	// Registry sub-check first: it is independent of the writer runs below and
	// must not be skipped when those stop early.
	rlo, rhi := c.Slice(registryChunks)
	for ch := rlo; ch < rhi; ch++ {
		if !registryChunk(c, ch) {
			break
		}
	}

	// Slow-flush class ("every broker latency" x "every instant of shutdown"): a
	// sink that needs 0.6-1.0 s per write call, a burst sized so that the flush at
	// Close() takes ~7-8 s, Close() right after the last publish. Same oracle. The
	// run sleeps most of the time, so it executes concurrently with the runs below.
	var slowWG sync.WaitGroup
	slo, shi := c.Slice(slowRuns)
	for i := slo; i < shi; i++ {
		sp := makeSlowSpec(c, i)
		id := c.Case(sp)
		slowWG.Add(1)
		go func() {
			defer slowWG.Done()
			runOne(c, sp, id, 0)
		}()
	}
	finish := func() {
		slowWG.Wait()
		checkLate(c)
	}

	// Deep backlog ("without the producers EVER waiting for the broker"): the sink stalls at its
	// first batch and 62 000-70 000 events are published against it - several times the 10 000-slot
	// channel, beyond any plausible high-water mark of the buffer behind it. Same oracle.
	deepRuns := 2
	if !vlib.Quick(c) {
		deepRuns = 16
	}
	dlo, dhi := c.Slice(deepRuns)
	for i := dlo; i < dhi; i++ {
		r := c.SubRand(int64(4000000 + i))
		sp := spec{Idx: 4000000 + i, P: []int{1, 4}[r.Intn(2)], Pattern: "burst", Sink: "gated", CloseMode: []string{"after-last", "full-fifo"}[r.Intn(2)],
			HoldAt: 0, Envs: 1 + r.Intn(3), RandSeed: r.Int63(), Total: 62000 + r.Intn(8001), ShapeUS: 200}
		c.Count("deep_backlog_runs", 1)
		if !runOne(c, sp, c.Case(sp), 0) {
			break
		}
	}

	// Every seed visits the 81 combinations (P x pattern x sink x close mode) in
	// its own order; run i takes combination perm[i mod 81].
	perm := rand.New(rand.NewSource(c.Seed*7777777 + 5)).Perm(81)
	lo, hi := c.Slice(n)
	closeHangs := 0
	for i := lo; i < hi; i++ {
		sp := makeSpec(c, i, perm[i%81])
		if !runOne(c, sp, c.Case(sp), 0) {
			// every run whose Close() hangs costs a full watchdog and leaks the writer;
			// two witnesses are enough, the rest of this batch is not explored
			if closeHangs++; closeHangs >= 2 {
				c.Count("runs_skipped_after_close_hangs", int64(hi-i-1))
				finish()
				return
			}
		}
	}

	// Micro runs: 1..3 events, Close() immediately after the last WriteEvent
	// returned, fast sink. This is the close instant "writing loop is just going
	// back to sleep"; each run is ~1 ms so it is repeated many times. One logged
	// case per chunk of microPerChunk runs.
	lo, hi = c.Slice(microChunks)
chunks:
	for ch := lo; ch < hi; ch++ {
		r := c.SubRand(int64(1000000 + ch))
		desc := map[string]interface{}{"micro_chunk": ch, "runs": microPerChunk, "events_per_run": "1..3", "producers": "1..2", "sink": "fast", "close": "after-last"}
		id := c.Case(desc)
		for k := 0; k < microPerChunk; k++ {
			sp := spec{Idx: 1000000 + ch, P: 1 + r.Intn(2), Pattern: "micro", Sink: "fast", CloseMode: "after-last", HoldAt: -1, Envs: 1, RandSeed: r.Int63()}
			sp.Total = sp.P + r.Intn(2)
			c.Count("micro_close_runs", 1)
			if !runOne(c, sp, id, k) {
				// Close() hung: the class is witnessed, every further hit costs a full watchdog
				break chunks
			}
		}
	}
	finish()
}

func checkLate(c *vlib.Ctx) {
	lateMu.Lock()
	defer lateMu.Unlock()
	for _, lw := range lateList {
		nb, _ := lw.s.counts()
		if nb > lw.n {
			c.Violation("C19", "LATE/batch-handed-over-after-close-returned",
				fmt.Sprintf("%d batch(es) reached the sink after Close() had returned", nb-lw.n), lw.caseID, lw.sp)
		}
	}
}

// gateWitnessed: a GATE violation was recorded in this process. Every further
// stalled-sink run would cost a full watchdog for the same class, so later runs
// keep their sink open (counted, so that a held verdict can never rest on it).
var gateWitnessed atomic.Bool

// runOne executes one run; it returns false when Close() never returned.
func runOne(c *vlib.Ctx, sp spec, id int64, sub int) bool {
	if sp.HoldAt >= 0 && gateWitnessed.Load() {
		sp.HoldAt = -1
		c.Count("stalled_sink_runs_skipped_after_gate_violation", 1)
	}
	nonce := fmt.Sprintf("%d.%d.%d.%d", c.Seed, sp.Idx, id, sub)

	s := newSink(sp)
	w := event.VerifNewWriter("verif.c19", s.write)
	chanCap := w.VerifChannelCap()
	overCap := sp.Total > chanCap

	// per-producer share
	per := make([]int, sp.P)
	for p := range per {
		per[p] = sp.Total / sp.P
		if p < sp.Total%sp.P {
			per[p]++
		}
	}
	pubs := make([][]pubRec, sp.P)
	var returned int64
	start := make(chan struct{})
	var wg sync.WaitGroup
	for p := 0; p < sp.P; p++ {
		pubs[p] = make([]pubRec, per[p])
		evs := genEvents(sp, nonce, p, per[p]) // generated up front: publishing is a tight loop
		wg.Add(1)
		go func(p int, evs []interface{}) {
			defer wg.Done()
			r := rand.New(rand.NewSource(sp.RandSeed ^ int64(p+1)*2654435761))
			<-start
			for k, e := range evs {
				switch sp.Pattern {
				case "pauses":
					if k > 0 && k%sp.Chunk == 0 {
						time.Sleep(time.Duration(1+r.Intn(3)) * time.Millisecond)
					}
				case "steady":
					if k%16 == 15 {
						runtime.Gosched()
					}
				}
				a := vlib.Seq()
				w.WriteEvent(e)
				b := vlib.Seq()
				pubs[p][k] = pubRec{a, b}
				atomic.AddInt64(&returned, 1)
			}
		}(p, evs)
	}
	close(start)
	pubDone := make(chan struct{})
	go func() { wg.Wait(); close(pubDone) }()

	progressPub := func() int64 { return atomic.LoadInt64(&returned) }
	done, stuck := waitDone(pubDone, progressPub)
	if !done {
		nb, nd := s.counts()
		if stuck && s.isHolding() {
			// Zero publishing progress over the confirmation interval while the only
			// thing that is stopped is the broker: the producers wait for the broker.
			class := "GATE/producers-wait-for-stalled-broker/within-channel-capacity"
			if overCap {
				class = "GATE/producers-wait-for-stalled-broker/over-channel-capacity"
			}
			gateWitnessed.Store(true)
			blockedAt := atomic.LoadInt64(&returned)
			s.open()
			after, _ := waitDone(pubDone, progressPub)
			c.Violation("C19", class, fmt.Sprintf(
				"sink stalled at batch %d (%d messages handed over); only %d of %d WriteEvent calls returned within %v and none during a further %v; after the sink was reopened all returned: %v",
				nb-1, nd, blockedAt, sp.Total, watchdog, confirmation, after), id, sp)
			if !after {
				c.Inconclusive(fmt.Sprintf("case %d: producers still blocked after the sink was reopened; run abandoned", id))
				return true
			}
		} else {
			s.open()
			c.Inconclusive(fmt.Sprintf("case %d: producers not finished after %v (progressing=%v, sink stalled=%v); run abandoned", id, watchdog, !stuck, s.isHolding()))
			return true
		}
	}
	// all WriteEvent calls have returned
	_, ndAtPub := s.counts()
	gatedOK := s.isHolding()
	// micro runs have their own counters so that the floors on the main runs mean something
	count := func(name string, n int64) {
		switch sp.Pattern {
		case "micro":
			name = "micro_" + name
		case "slow-flush":
			name = "slow_" + name
		}
		c.Count(name, n)
	}
	count("events_published", int64(sp.Total))
	if gatedOK {
		count("gated_runs", 1)
		if int64(sp.Total)-ndAtPub > int64(chanCap) {
			count("gated_runs_over_channel_capacity", 1)
		}
	}
	if sp.P > 1 {
		count("runs_concurrent_producers", 1)
	}

	var closeCall, closeRet int64
	var qChan, qFifo int
	var closeWall time.Duration // coverage evidence only, never an input of the oracle
	closeDone := make(chan struct{})
	doClose := func() {
		qChan, qFifo = w.VerifQueued()
		closeCall = vlib.Seq()
		t0 := time.Now()
		w.Close()
		closeWall = time.Since(t0)
		closeRet = vlib.Seq()
		close(closeDone)
	}
	switch sp.CloseMode {
	case "after-last":
		s.open()
		go doClose()
	case "full-fifo":
		go doClose()
		if sp.ShapeUS > 0 {
			time.Sleep(time.Duration(sp.ShapeUS) * time.Microsecond)
		} else {
			runtime.Gosched()
		}
		s.open()
	case "idle":
		s.open()
		deadline := time.Now().Add(watchdog)
		for {
			if _, nd := s.counts(); nd >= int64(sp.Total) {
				break
			}
			if time.Now().After(deadline) {
				_, nd := s.counts()
				c.Inconclusive(fmt.Sprintf("case %d: writer did not become idle within %v (%d of %d delivered); closing anyway", id, watchdog, nd, sp.Total))
				break
			}
			time.Sleep(200 * time.Microsecond)
		}
		if sp.IdleUS > 0 {
			time.Sleep(time.Duration(sp.IdleUS) * time.Microsecond)
		}
		go doClose()
	}

	done, stuck = waitDone(closeDone, func() int64 { _, nd := s.counts(); return nd })
	if !done {
		s.open()
		_, nd := s.counts()
		if stuck {
			c.Violation("C19", "CLOSE/never-returns", fmt.Sprintf(
				"Close() did not return within %v and the sink saw nothing during a further %v (sink open, %d of %d messages handed over): shutdown never completes",
				watchdog, confirmation, nd, sp.Total), id, sp)
		} else {
			c.Inconclusive(fmt.Sprintf("case %d: Close() still draining after %v (%d of %d); run abandoned", id, watchdog+confirmation, nd, sp.Total))
		}
		return false
	}
	// closeDone closed => qChan/qFifo/closeCall/closeRet are visible here
	batches := s.snapshot()
	lateMu.Lock()
	lateList = append(lateList, lateWatch{s: s, n: len(batches), caseID: id, sp: sp})
	lateMu.Unlock()

	if closeWall > 5*time.Second {
		count("closes_flush_over_5s", 1)
	}
	if qChan+qFifo > 0 {
		count("closes_nonempty_fifo", 1)
	}
	if qChan+qFifo > batchBound {
		count("closes_fifo_over_one_batch", 1)
	}
	if qChan+qFifo == 0 {
		count("closes_empty_queue", 1)
	}
	judge(c, count, id, sp, nonce, pubs, batches, closeCall, closeRet, qChan, qFifo, ndAtPub)
	return true
}

// ---------------------------------------------------------------------------
// event generation: real event types, tag "(producer, seq)" in a string field

var states = []string{"STANDBY", "DEPLOYED", "CONFIGURED", "RUNNING", "ERROR", "DONE"}

func tagOf(nonce string, p, k int) string { return fmt.Sprintf("c19|%s|%d|%d", nonce, p, k) }

func envName(nonce string, j int) string { return fmt.Sprintf("2env%d-%s", j, nonce) }

func genEvents(sp spec, nonce string, p, n int) []interface{} {
	r := rand.New(rand.NewSource(sp.RandSeed + int64(p)*1000003))
	out := make([]interface{}, n)
	for k := 0; k < n; k++ {
		tag := tagOf(nonce, p, k)
		ej := r.Intn(sp.Envs)
		env := envName(nonce, ej)
		if r.Intn(50) == 0 {
			env = "" // event that is about no environment
		}
		st := states[r.Intn(len(states))]
		rn := uint32(500000 + r.Intn(4))
		switch r.Intn(8) {
		case 0, 1:
			out[k] = &pb.Ev_EnvironmentEvent{EnvironmentId: env, State: st, RunNumber: rn, Message: tag,
				Transition: []string{"CONFIGURE", "START_ACTIVITY", "STOP_ACTIVITY"}[r.Intn(3)]}
		case 2:
			out[k] = &pb.Ev_RunEvent{EnvironmentId: env, RunNumber: rn, State: st, Error: tag}
		case 3:
			out[k] = &pb.Ev_RoleEvent{Name: tag, Status: "ACTIVE", State: st, RolePath: fmt.Sprintf("root.r%d", r.Intn(5)), EnvironmentId: env}
		case 4:
			out[k] = &pb.Ev_CallEvent{Func: fmt.Sprintf("odc.Fn%d()", r.Intn(4)), Output: tag, Path: fmt.Sprintf("root.c%d", r.Intn(5)), EnvironmentId: env}
		case 5:
			out[k] = &pb.Ev_IntegratedServiceEvent{Name: fmt.Sprintf("svc%d", r.Intn(3)), OperationName: "op", Payload: tag, EnvironmentId: env}
		case 6:
			// a task belongs to exactly one environment
			tj := ej + sp.Envs*r.Intn(4)
			out[k] = &pb.Ev_TaskEvent{Name: tag, Taskid: fmt.Sprintf("task%d-%s", tj, nonce), State: st, Status: "ACTIVE",
				Hostname: fmt.Sprintf("flp%d", r.Intn(4)), EnvironmentId: envName(nonce, ej)}
		case 7:
			out[k] = &pb.Ev_MetaEvent_FrameworkEvent{FrameworkId: "fw", Message: tag}
		}
	}
	return out
}
