package main

import (
	"fmt"
	"math/rand"
	"net"
	"runtime"
	"sync"
	"sync/atomic"

	"github.com/AliceO2Group/Control/common/event"
	"github.com/AliceO2Group/Control/common/event/topic"
	"github.com/AliceO2Group/Control/core/the"
	"github.com/sirupsen/logrus"
	"github.com/spf13/viper"

	"verif/harness/vlib"
)

// ---------------------------------------------------------------------------
// Registry sub-check (core/the/eventwriter.go, an anchor file of C19).
//
// Producers in the core do not hold a writer: every publish site calls
// the.EventWriterWithTopic(t).WriteEvent(e). "In the order each producer
// published them" and "every event accepted before shutdown is handed over
// before shutdown completes" therefore need ONE writer per topic, and it must be
// the one that ClearEventWriters() closes: a second writer for the same topic is
// a second, unordered path to the broker and is never closed (never flushed).
//
// A round: K fresh topic names, N goroutines per topic released together by a
// spin barrier, each calls the.EventWriterWithTopic(topic) once. Oracle (logical,
// on the returned interface values): all N calls and a later call return the
// identical *KafkaWriter; ClearEventWriters() returns; afterwards the topic gets
// a new writer. Nothing is ever written: enableKafka=true with kafkaEndpoints on
// a closed local port, and NewWriterWithTopic does not connect.
// ---------------------------------------------------------------------------

const registryRoundsPerChunk = 100

var registryNs = []int{2, 8, 32}

type registrySpec struct {
	Pattern string `json:"pattern"` // "registry"
	P       int    `json:"producers"`
	Topics  int    `json:"topics"`
	Chunk   int    `json:"chunk"`
	Round   int    `json:"round"`
}

var registryOnce sync.Once

func registrySetup() {
	registryOnce.Do(func() {
		// a port that is closed: bind an ephemeral one and release it
		addr := "127.0.0.1:9"
		if l, err := net.Listen("tcp", "127.0.0.1:0"); err == nil {
			addr = l.Addr().String()
			_ = l.Close()
		}
		viper.Set("enableKafka", true)
		viper.Set("kafkaEndpoints", []string{addr})
		// ClearEventWriters logs one Info line per call
		logrus.SetLevel(logrus.ErrorLevel)
	})
}

// callTogether releases n goroutines per topic at the same instant and returns
// what each call returned together with its logical start/end stamps.
func callTogether(topics []topic.Topic, n int) (got [][]event.Writer, start, end [][]int64) {
	total := n * len(topics)
	got = make([][]event.Writer, len(topics))
	start = make([][]int64, len(topics))
	end = make([][]int64, len(topics))
	var ready, fire int32
	var wg sync.WaitGroup
	// pure spinning only while every spinner can own a P; otherwise yield while
	// waiting (the release is still one atomic store seen by all)
	yield := total+1 > runtime.GOMAXPROCS(0)
	for ti := range topics {
		got[ti] = make([]event.Writer, n)
		start[ti] = make([]int64, n)
		end[ti] = make([]int64, n)
		for g := 0; g < n; g++ {
			wg.Add(1)
			go func(ti, g int) {
				defer wg.Done()
				atomic.AddInt32(&ready, 1)
				for atomic.LoadInt32(&fire) == 0 {
					if yield {
						runtime.Gosched()
					}
				}
				a := vlib.Seq()
				w := the.EventWriterWithTopic(topics[ti])
				b := vlib.Seq()
				got[ti][g], start[ti][g], end[ti][g] = w, a, b
			}(ti, g)
		}
	}
	for atomic.LoadInt32(&ready) != int32(total) {
		runtime.Gosched()
	}
	atomic.StoreInt32(&fire, 1)
	wg.Wait()
	return
}

// clearWithWatchdog returns false when ClearEventWriters did not return.
func clearWithWatchdog() bool {
	done := make(chan struct{})
	go func() { the.ClearEventWriters(); close(done) }()
	ok, _ := waitDone(done, func() int64 { return 0 })
	return ok
}

func describeWriter(w event.Writer) string {
	if kw, ok := w.(*event.KafkaWriter); ok {
		return fmt.Sprintf("*KafkaWriter@%p", kw)
	}
	return fmt.Sprintf("%T", w)
}

// registryRound returns false when the registry can no longer be used
// (ClearEventWriters hung while holding its lock).
func registryRound(c *vlib.Ctx, id int64, sp registrySpec, nonce string) bool {
	topics := make([]topic.Topic, sp.Topics)
	for k := range topics {
		topics[k] = topic.Topic(fmt.Sprintf("verif.c19.registry.%s.%d", nonce, k))
	}
	got, start, end := callTogether(topics, sp.P)
	c.Count("registry_rounds", 1)
	c.Count(fmt.Sprintf("registry_rounds_n%d", sp.P), 1)
	c.Count("registry_concurrent_calls", int64(sp.P*sp.Topics))

	var firstOf []event.Writer
	overlapping := false
	for ti := range topics {
		// coverage: did at least two calls for this topic overlap in logical time?
		minEnd := end[ti][0]
		for _, e := range end[ti] {
			if e < minEnd {
				minEnd = e
			}
		}
		early := 0
		for _, s := range start[ti] {
			if s < minEnd {
				early++
			}
		}
		if early >= 2 {
			overlapping = true
		}
		// oracle: one writer
		distinct := map[event.Writer]int{}
		for _, w := range got[ti] {
			distinct[w]++
		}
		later := the.EventWriterWithTopic(topics[ti])
		c.Count("registry_later_calls", 1)
		firstOf = append(firstOf, later)
		if len(distinct) > 1 {
			c.Count("registry_topics_with_several_writers", 1)
			var ws []string
			for w, k := range distinct {
				ws = append(ws, fmt.Sprintf("%s x%d", describeWriter(w), k))
			}
			c.Violation("REGISTRY", "several-writers-for-one-topic", fmt.Sprintf(
				"%d concurrent calls of the.EventWriterWithTopic(%q) returned %d different writers (%v); the registry keeps %s: the others are a second path to the broker that ClearEventWriters() never closes",
				sp.P, topics[ti], len(distinct), ws, describeWriter(later)), id, sp)
		} else if _, same := distinct[later]; !same {
			c.Violation("REGISTRY", "later-call-returns-another-writer", fmt.Sprintf(
				"the.EventWriterWithTopic(%q): %d concurrent calls returned %s, a later call returned %s",
				topics[ti], sp.P, describeWriter(got[ti][0]), describeWriter(later)), id, sp)
		}
		if _, ok := later.(*event.KafkaWriter); !ok {
			c.Inconclusive(fmt.Sprintf("case %d: registry returned %T although enableKafka is set; identity of writers cannot be judged", id, later))
			return false
		}
	}
	if overlapping {
		c.Count("registry_rounds_with_overlapping_calls", 1)
	}

	if !clearWithWatchdog() {
		c.Violation("REGISTRY", "clear-event-writers-never-returns", fmt.Sprintf(
			"the.ClearEventWriters() did not return within %v (+%v) with %d idle writer(s) registered: shutdown never completes",
			watchdog, confirmation, sp.Topics), id, sp)
		return false
	}
	c.Count("registry_clears", 1)
	// after shutdown of the writers a topic must get a new writer (the old one is closed)
	again := the.EventWriterWithTopic(topics[0])
	if again == firstOf[0] {
		c.Violation("REGISTRY", "closed-writer-still-registered-after-clear", fmt.Sprintf(
			"after the.ClearEventWriters() returned, the.EventWriterWithTopic(%q) still returns the closed %s", topics[0], describeWriter(again)), id, sp)
	}
	if !clearWithWatchdog() {
		c.Violation("REGISTRY", "clear-event-writers-never-returns", fmt.Sprintf(
			"the.ClearEventWriters() did not return within %v (+%v) with one idle writer registered: shutdown never completes", watchdog, confirmation), id, sp)
		return false
	}
	return true
}

func registryChunk(c *vlib.Ctx, ch int) bool {
	registrySetup()
	r := c.SubRand(int64(2000000 + ch))
	id := c.Case(map[string]interface{}{"registry_chunk": ch, "rounds": registryRoundsPerChunk, "goroutines_per_topic": registryNs, "topics_per_round": "1..3",
		"call": "the.EventWriterWithTopic(fresh topic) from N goroutines released by a spin barrier; then a later call; then the.ClearEventWriters()"})
	for k := 0; k < registryRoundsPerChunk; k++ {
		sp := registrySpec{Pattern: "registry", P: registryNs[r.Intn(len(registryNs))], Topics: 1 + r.Intn(3), Chunk: ch, Round: k}
		if !registryRound(c, id, sp, fmt.Sprintf("%d.%d.%d", c.Seed, ch, k)) {
			return false
		}
		c.Nontrivial(vlib.Hash("registry", sp.P, sp.Topics))
	}
	return true
}

func registryReplay(c *vlib.Ctx, sp registrySpec) {
	registrySetup()
	id := c.Case(sp)
	r := rand.New(rand.NewSource(c.Seed))
	for k := 0; k < 3000; k++ {
		if !registryRound(c, id, sp, fmt.Sprintf("replay.%d.%d", r.Int63(), k)) {
			return
		}
	}
}
