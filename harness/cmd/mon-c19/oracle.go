package main

import (
	"bytes"
	"fmt"
	"strconv"
	"strings"

	pb "github.com/AliceO2Group/Control/common/protos"
	"google.golang.org/protobuf/proto"

	"verif/harness/vlib"
)

// decoded is what the broker side can read back from one kafka message.
type decoded struct {
	ok     bool
	kind   string
	env    string
	task   string
	p, seq int
}

func decode(val []byte, nonce string) decoded {
	ev := &pb.Event{}
	if err := proto.Unmarshal(val, ev); err != nil {
		return decoded{}
	}
	var d decoded
	var tag string
	switch {
	case ev.GetEnvironmentEvent() != nil:
		e := ev.GetEnvironmentEvent()
		d.kind, d.env, tag = "environment", e.EnvironmentId, e.Message
	case ev.GetRunEvent() != nil:
		e := ev.GetRunEvent()
		d.kind, d.env, tag = "run", e.EnvironmentId, e.Error
	case ev.GetRoleEvent() != nil:
		e := ev.GetRoleEvent()
		d.kind, d.env, tag = "role", e.EnvironmentId, e.Name
	case ev.GetCallEvent() != nil:
		e := ev.GetCallEvent()
		d.kind, d.env, tag = "call", e.EnvironmentId, e.Output
	case ev.GetIntegratedServiceEvent() != nil:
		e := ev.GetIntegratedServiceEvent()
		d.kind, d.env, tag = "integrated_service", e.EnvironmentId, e.Payload
	case ev.GetTaskEvent() != nil:
		e := ev.GetTaskEvent()
		d.kind, d.env, d.task, tag = "task", e.EnvironmentId, e.Taskid, e.Name
	case ev.GetFrameworkEvent() != nil:
		d.kind, tag = "framework", ev.GetFrameworkEvent().Message
	default:
		return decoded{}
	}
	f := strings.Split(tag, "|")
	if len(f) != 4 || f[0] != "c19" || f[1] != nonce {
		return decoded{}
	}
	p, e1 := strconv.Atoi(f[2])
	k, e2 := strconv.Atoi(f[3])
	if e1 != nil || e2 != nil {
		return decoded{}
	}
	d.p, d.seq, d.ok = p, k, true
	return d
}

type evRef struct {
	P   int `json:"producer"`
	Seq int `json:"seq"`
}

// judge is the offline oracle over what the sink recorded up to the moment
// Close() returned. It is a function of recorded stamps and messages only.
//
//	accepted(e)  :=  WriteEvent(e) returned before Close() was called
//	maybe(e)     :=  WriteEvent(e) overlaps Close()  (0 or 1 deliveries both fine)
func judge(c *vlib.Ctx, count func(string, int64), id int64, sp spec, nonce string, pubs [][]pubRec, batches []batchRec,
	closeCall, closeRet int64, qChan, qFifo int, deliveredWhenPublished int64) {

	wit := func(extra interface{}) interface{} {
		// the replay reader takes the spec itself; keep it flat for ReadReplay
		return map[string]interface{}{
			"idx": sp.Idx, "producers": sp.P, "pattern": sp.Pattern, "sink": sp.Sink, "close": sp.CloseMode,
			"total": sp.Total, "chunk": sp.Chunk, "hold_at_batch": sp.HoldAt, "shape_us": sp.ShapeUS,
			"idle_us": sp.IdleUS, "envs": sp.Envs, "rand_seed": sp.RandSeed,
			"queued_in_channel_at_close": qChan, "queued_in_fifo_at_close": qFifo,
			"batches_recorded": len(batches), "extra": extra,
		}
	}

	cnt := make([][]int32, sp.P)
	maxSeen := make([]int, sp.P)
	for p := range cnt {
		cnt[p] = make([]int32, len(pubs[p]))
		maxSeen[p] = -1
	}
	// key function: environment id -> key seen first (for all events that do not
	// use the documented task-id exception)
	type keyObs struct {
		key  string
		kind string
		ref  evRef
	}
	envKey := map[string]keyObs{}

	var nMsgs, nLate, nFull, maxBatch int
	var order []byte // interleaving fingerprint material
	var sizes []int
	reported := map[string]bool{}
	once := func(class, detail string, extra interface{}) {
		if reported[class] {
			return
		}
		reported[class] = true
		c.Violation("C19", class, detail, id, wit(extra))
	}

	for bi, b := range batches {
		if len(b.msgs) > maxBatch {
			maxBatch = len(b.msgs)
		}
		if len(b.msgs) == batchBound {
			nFull++
		}
		if len(sizes) < 24 {
			sizes = append(sizes, len(b.msgs))
		}
		if len(b.msgs) > batchBound {
			once("BATCH/larger-than-bound", fmt.Sprintf("batch #%d handed to the write function holds %d messages (bound %d)", bi, len(b.msgs), batchBound),
				map[string]int{"batch": bi, "size": len(b.msgs)})
		}
		late := b.stamp > closeRet
		for mi, m := range b.msgs {
			nMsgs++
			d := decode(m.Value, nonce)
			if !d.ok || d.p < 0 || d.p >= sp.P || d.seq < 0 || d.seq >= len(pubs[d.p]) {
				once("FOREIGN/message-not-published-by-any-producer", fmt.Sprintf("batch #%d message %d does not decode to an event published in this run", bi, mi), nil)
				continue
			}
			if late {
				nLate++
				if pubs[d.p][d.seq].end < closeCall {
					once("LATE/batch-handed-over-after-close-returned", fmt.Sprintf(
						"event (producer %d, seq %d) was accepted before Close() was called but handed to the sink only after Close() had returned", d.p, d.seq),
						evRef{d.p, d.seq})
				}
				continue
			}
			if len(order) < 256 {
				order = append(order, byte(d.p))
			}
			// exactly once / order
			if cnt[d.p][d.seq] > 0 {
				once("DUP/event-handed-over-more-than-once", fmt.Sprintf("event (producer %d, seq %d) appears again in batch #%d", d.p, d.seq, bi), evRef{d.p, d.seq})
			} else if d.seq < maxSeen[d.p] {
				once("ORDER/producer-order-not-preserved", fmt.Sprintf(
					"producer %d: seq %d handed over (batch #%d, position %d) after seq %d", d.p, d.seq, bi, mi, maxSeen[d.p]),
					map[string]int{"producer": d.p, "seq": d.seq, "after_seq": maxSeen[d.p], "batch": bi})
			}
			cnt[d.p][d.seq]++
			if d.seq > maxSeen[d.p] {
				maxSeen[d.p] = d.seq
			}
			// partition key
			if d.env == "" {
				continue
			}
			if d.kind == "task" && bytes.Equal(m.Key, []byte(d.task)) {
				continue // documented exception: task events may be keyed by task id
			}
			k := string(m.Key)
			if prev, ok := envKey[d.env]; !ok {
				envKey[d.env] = keyObs{key: k, kind: d.kind, ref: evRef{d.p, d.seq}}
			} else if prev.key != k {
				class := "KEY/same-environment-different-keys"
				if d.kind == "task" || prev.kind == "task" {
					class = "KEY/task-event-key-neither-task-id-nor-environment-key"
				}
				once(class, fmt.Sprintf("environment %q: %s event (producer %d, seq %d) has key %q, %s event (producer %d, seq %d) has key %q",
					d.env, prev.kind, prev.ref.P, prev.ref.Seq, prev.key, d.kind, d.p, d.seq, k),
					map[string]interface{}{"first": prev.ref, "first_kind": prev.kind, "first_key": prev.key, "second": evRef{d.p, d.seq}, "second_kind": d.kind, "second_key": k})
			}
		}
	}

	// flush on shutdown / no loss
	var accepted, maybe, missing int
	var firstMissing []evRef
	for p := range pubs {
		for k, pr := range pubs[p] {
			switch {
			case pr.end < closeCall:
				accepted++
				if cnt[p][k] == 0 {
					missing++
					if len(firstMissing) < 5 {
						firstMissing = append(firstMissing, evRef{p, k})
					}
				}
			default:
				maybe++
			}
		}
	}
	if missing > 0 {
		once("LOSS/accepted-events-not-handed-over-when-close-returned", fmt.Sprintf(
			"Close() returned with %d of %d accepted events never handed to the write function (%d batches / %d messages were; queue at the Close() call: %d in channel + %d in FIFO)",
			missing, accepted, len(batches), nMsgs, qChan, qFifo),
			map[string]interface{}{"missing": missing, "accepted": accepted, "first_missing": firstMissing})
	}

	count("events_accepted", int64(accepted))
	count("events_maybe", int64(maybe))
	count("events_delivered", int64(nMsgs))
	count("batches_seen", int64(len(batches)))
	count("batches_at_bound", int64(nFull))
	if len(envKey) > 0 {
		count("runs_with_keyed_environments", 1)
	}
	if len(batches) >= 2 && sp.Total >= 40 {
		c.Nontrivial(vlib.Hash(sp.P, sp.Pattern, sp.Sink, sp.CloseMode, qChan+qFifo > 0, qChan+qFifo > batchBound, maxBatch == batchBound))
	} else if sp.Total >= 40 {
		// a single batch can only come from a tiny run; still a real case
		c.Nontrivial(vlib.Hash(sp.P, sp.Pattern, sp.Sink, sp.CloseMode, "single"))
	}
	if sp.Pattern == "micro" {
		return
	}
	c.Interleaving(vlib.Hash(string(order), fmt.Sprint(sizes)))
	c.Sample(map[string]interface{}{"spec": sp, "batches": len(batches), "messages": nMsgs, "max_batch": maxBatch,
		"queued_at_close": qChan + qFifo, "delivered_when_all_published": deliveredWhenPublished, "first_batch_sizes": sizes})
}
