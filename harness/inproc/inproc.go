// Package inproc sets up what the real core packages need to run inside a
// monitor process: a fake Consul (apricot must sit on consul:// — file:// and
// mock:// make the repo manager abort), the viper keys, a local git repository
// for workflow and task templates, and a (never started, or started against a
// closed port) task.Manager.
package inproc

import (
	"fmt"
	"io"
	"os"
	"os/exec"
	"path/filepath"
	"sort"
	"sync"

	"github.com/sirupsen/logrus"
	"github.com/spf13/viper"

	"github.com/AliceO2Group/Control/apricot"
	"github.com/AliceO2Group/Control/common/event"
	"github.com/AliceO2Group/Control/core/task"
	"github.com/AliceO2Group/Control/core/task/schedutil"
	"github.com/AliceO2Group/Control/core/the"
	"github.com/AliceO2Group/Control/core/workflow"

	"verif/harness/sim/consul"
)

type Env struct {
	Consul   *consul.Server
	WorkDir  string
	RepoDir  string
	Taskman  *task.Manager
	EventCh  chan event.Event
	repoOnce sync.Once
}

var (
	global *Env
	mu     sync.Mutex
)

// Setup is idempotent per process (apricot.Instance and the repo manager are
// process-wide singletons). files maps repo-relative paths
// ("workflows/x.yaml", "tasks/y.yaml") to contents; more files can be added
// later with WriteRepoFile (local repositories are read from the working tree).
func Setup(files map[string]string, consulKV map[string]string) (*Env, error) {
	mu.Lock()
	defer mu.Unlock()
	if global != nil {
		for p, c := range files {
			if err := global.writeRepoFileLocked(p, c); err != nil {
				return nil, err
			}
		}
		for k, v := range consulKV {
			global.Consul.Put(k, v)
		}
		return global, nil
	}
	if os.Getenv("VERIF_LOG") == "" {
		logrus.SetOutput(io.Discard)
		logrus.SetLevel(logrus.PanicLevel)
	}
	base, err := os.MkdirTemp("", "verif-inproc-")
	if err != nil {
		return nil, err
	}
	e := &Env{WorkDir: filepath.Join(base, "work"), RepoDir: filepath.Join(base, "repo")}
	for _, d := range []string{filepath.Join(e.WorkDir, "repos"), filepath.Join(e.RepoDir, "workflows"), filepath.Join(e.RepoDir, "tasks")} {
		if err := os.MkdirAll(d, 0o755); err != nil {
			return nil, err
		}
	}
	if len(files) == 0 {
		files = map[string]string{"workflows/empty.yaml": "name: empty\nroles: []\n"}
	}
	for p, c := range files {
		if err := e.writeRepoFileLocked(p, c); err != nil {
			return nil, err
		}
	}
	if err := gitInit(e.RepoDir); err != nil {
		return nil, err
	}
	e.Consul = consul.New()
	if err := e.Consul.Start(); err != nil {
		return nil, err
	}
	e.Consul.Put("o2/components/aliecs/ANY/any/settings", "enableKafka: false\nconfigCache: false\n")
	e.Consul.Put("o2/runtime/aliecs/default_repo", e.RepoDir)
	e.Consul.Put("o2/runtime/aliecs/vars/verif_placeholder", "1")
	e.Consul.Put("o2/runtime/aliecs/defaults/verif_placeholder_d", "1")
	for k, v := range consulKV {
		e.Consul.Put(k, v)
	}
	viper.Set("component", "core")
	viper.Set("config_endpoint", "consul://"+e.Consul.Addr)
	viper.Set("configServiceUri", "consul://"+e.Consul.Addr)
	viper.Set("configCache", false)
	viper.Set("enableKafka", false)
	viper.Set("coreWorkingDir", e.WorkDir)
	viper.Set("executor", "/bin/true")
	viper.Set("executorCPU", 0.01)
	viper.Set("executorMemory", 64.0)
	viper.Set("metrics.path", "/metrics")
	viper.Set("metrics.address", "127.0.0.1")
	viper.Set("metrics.port", 0)
	viper.Set("mesosUrl", "http://127.0.0.1:1/api/v1/scheduler")
	viper.Set("mesosLabels", schedutil.Labels{})
	viper.Set("mesosApiTimeout", "2s")
	viper.Set("mesosFailoverTimeout", "1000h")
	viper.Set("mesosFrameworkName", "verif")
	viper.Set("mesosFrameworkUser", "root")
	viper.Set("mesosJobRestartDelay", "5s")
	viper.Set("mesosReviveBurst", 3)
	viper.Set("mesosReviveWait", "1s")
	viper.Set("mesosMaxRefuseSeconds", "5s")
	viper.Set("globalDefaultRevision", "master")
	viper.Set("concurrentWorkflowTemplateProcessing", true)
	viper.Set("concurrentWorkflowTemplateIteratorProcessing", true)
	viper.Set("concurrentIteratorRoleExpansion", true)
	viper.Set("taskClassCacheTTL", "168h")
	viper.Set("fmqPlugin", "OCClite")
	viper.Set("fmqPluginSearchPath", "/nonexistent")
	if !viper.IsSet("integrationPlugins") {
		viper.Set("integrationPlugins", []string{})
	}
	_ = apricot.Instance()
	_ = the.RepoManager()
	e.EventCh = make(chan event.Event, 4096)
	tm, err := task.NewManager(func() {}, e.EventCh)
	if err != nil {
		return nil, fmt.Errorf("task.NewManager: %w", err)
	}
	e.Taskman = tm
	global = e
	return e, nil
}

func gitInit(dir string) error {
	for _, args := range [][]string{
		{"init", "-q", "-b", "master"},
		{"add", "-A"},
		{"-c", "user.name=verif", "-c", "user.email=verif@example.invalid", "commit", "-q", "-m", "init"},
	} {
		cmd := exec.Command("git", args...)
		cmd.Dir = dir
		if out, err := cmd.CombinedOutput(); err != nil {
			return fmt.Errorf("git %v: %v: %s", args, err, out)
		}
	}
	return nil
}

func (e *Env) writeRepoFileLocked(rel, content string) error {
	p := filepath.Join(e.RepoDir, rel)
	if err := os.MkdirAll(filepath.Dir(p), 0o755); err != nil {
		return err
	}
	return os.WriteFile(p, []byte(content), 0o644)
}

// WriteRepoFile adds or replaces a file of the local template repository.
func (e *Env) WriteRepoFile(rel, content string) error {
	mu.Lock()
	defer mu.Unlock()
	return e.writeRepoFileLocked(rel, content)
}

// Load runs the real workflow.Load on workflows/<name>.yaml of the local repository.
func (e *Env) Load(name string, parent workflow.Updatable, userVars, baseConfig map[string]string) (workflow.Role, error) {
	if userVars == nil {
		userVars = map[string]string{}
	}
	if baseConfig == nil {
		baseConfig = map[string]string{}
	}
	return workflow.Load(name, parent, e.Taskman, userVars, baseConfig)
}

// Roles returns every role of the processed tree in depth-first order using
// GetRoles() (which flattens iterators); the raw iterator nodes, whose
// GetState/GetStatus are unimplemented, are never visited.
func Roles(root workflow.Role) []workflow.Role {
	var out []workflow.Role
	var walk func(r workflow.Role)
	walk = func(r workflow.Role) {
		out = append(out, r)
		for _, c := range r.GetRoles() {
			walk(c)
		}
	}
	walk(root)
	return out
}

// SortedKeys is a small helper for canonical dumps.
func SortedKeys(m map[string]string) []string {
	ks := make([]string, 0, len(m))
	for k := range m {
		ks = append(ks, k)
	}
	sort.Strings(ks)
	return ks
}
