// Package vlib is the child-side runtime shared by all monitors: flag parsing,
// case logging (before execution), violation / counter / sample collection and
// the result file read by tools/runcheck.py.
package vlib

import (
	"crypto/sha1"
	"encoding/hex"
	"encoding/json"
	"flag"
	"fmt"
	"math/rand"
	"os"
	"path/filepath"
	"sort"
	"sync"
	"sync/atomic"
	"time"
)

// Violation is one oracle hit. Class is the canonical witness class used for
// known-finding matching (rule id + class computed from the witness).
type Violation struct {
	Rule    string      `json:"rule"`
	Class   string      `json:"class"`
	Detail  string      `json:"detail"`
	CaseID  int64       `json:"case_id"`
	Witness interface{} `json:"witness,omitempty"`
}

type Result struct {
	Prop          string           `json:"prop"`
	Batch         int              `json:"batch"`
	Seed          int64            `json:"seed"`
	Tier          string           `json:"tier"`
	Evaluations   int64            `json:"evaluations"`
	Distinct      int              `json:"distinct_nontrivial"`
	Fingerprints  []string         `json:"fingerprints,omitempty"`
	Samples       []interface{}    `json:"samples"`
	Violations    []Violation      `json:"violations"`
	Inconclusive  []string         `json:"inconclusive"`
	Counters      map[string]int64 `json:"counters"`
	Interleavings int              `json:"distinct_interleavings"`
	WallS         float64          `json:"wall_s"`
	Finished      bool             `json:"finished"`
}

type Ctx struct {
	Prop   string
	Seed   int64
	Tier   string
	Batch  int
	NBatch int
	OutDir string
	Replay string
	Rand   *rand.Rand

	mu        sync.Mutex
	caseF     *os.File
	caseSeq   int64
	evals     int64
	fps       map[string]struct{}
	ilv       map[string]struct{}
	samples   []interface{}
	viol      []Violation
	violSeen  map[string]int
	inconcl   []string
	counters  map[string]int64
	start     time.Time
	maxSample int
}

var seq int64

// Seq returns the next value of the process-wide logical clock.
func Seq() int64 { return atomic.AddInt64(&seq, 1) }

func Quick(c *Ctx) bool { return c.Tier != "thorough" }

// Start parses the standard child flags and opens the output files.
func Start(prop string) *Ctx {
	c := &Ctx{Prop: prop}
	fs := flag.NewFlagSet(prop, flag.ExitOnError)
	fs.Int64Var(&c.Seed, "seed", 1, "seed")
	fs.StringVar(&c.Tier, "tier", "quick", "quick|thorough")
	fs.IntVar(&c.Batch, "batch", 0, "batch index")
	fs.IntVar(&c.NBatch, "nbatch", 1, "number of batches")
	fs.StringVar(&c.OutDir, "out", "", "output dir")
	fs.StringVar(&c.Replay, "replay", "", "replay file")
	args := os.Args[1:]
	// allow "<bin> Cxx --flags"
	if len(args) > 0 && len(args[0]) > 0 && args[0][0] != '-' {
		args = args[1:]
	}
	_ = fs.Parse(args)
	if c.OutDir == "" {
		d, err := os.MkdirTemp("", "verif-"+prop+"-")
		if err != nil {
			panic(err)
		}
		c.OutDir = d
	}
	_ = os.MkdirAll(c.OutDir, 0o755)
	f, err := os.OpenFile(filepath.Join(c.OutDir, "cases.jsonl"), os.O_CREATE|os.O_WRONLY|os.O_TRUNC, 0o644)
	if err != nil {
		panic(err)
	}
	c.caseF = f
	c.Rand = rand.New(rand.NewSource(c.Seed*1000003 + int64(c.Batch)*7919 + 17))
	c.fps = map[string]struct{}{}
	c.ilv = map[string]struct{}{}
	c.violSeen = map[string]int{}
	c.counters = map[string]int64{}
	c.start = time.Now()
	c.maxSample = 5
	return c
}

// SubRand gives a deterministic PRNG for case i of this batch.
func (c *Ctx) SubRand(i int64) *rand.Rand {
	return rand.New(rand.NewSource(c.Seed*1000003 + int64(c.Batch)*7919 + i*104729 + 31))
}

// Case logs the case BEFORE it is executed (a crash is attributed to the last
// logged case) and returns its id.
func (c *Ctx) Case(desc interface{}) int64 {
	c.mu.Lock()
	defer c.mu.Unlock()
	c.caseSeq++
	c.evals++
	b, _ := json.Marshal(map[string]interface{}{"case": c.caseSeq, "desc": desc})
	c.caseF.Write(append(b, '\n'))
	return c.caseSeq
}

// CaseQuiet counts an evaluation without writing it (for very high-rate pure
// function cases; the crash attribution then names the enclosing logged case).
func (c *Ctx) CaseQuiet() {
	c.mu.Lock()
	c.evals++
	c.mu.Unlock()
}

func Hash(parts ...interface{}) string {
	h := sha1.New()
	for _, p := range parts {
		fmt.Fprintf(h, "%v|", p)
	}
	return hex.EncodeToString(h.Sum(nil))[:16]
}

// Nontrivial records the fingerprint of a case that is non-trivial by the
// property's rule; distinct fingerprints are counted.
func (c *Ctx) Nontrivial(fp string) {
	c.mu.Lock()
	c.fps[fp] = struct{}{}
	c.mu.Unlock()
}

// Interleaving records a fingerprint of an observed order of concurrent actors.
func (c *Ctx) Interleaving(fp string) {
	c.mu.Lock()
	c.ilv[fp] = struct{}{}
	c.mu.Unlock()
}

func (c *Ctx) Sample(s interface{}) {
	c.mu.Lock()
	if len(c.samples) < c.maxSample {
		c.samples = append(c.samples, s)
	}
	c.mu.Unlock()
}

func (c *Ctx) Count(name string, n int64) {
	c.mu.Lock()
	c.counters[name] += n
	c.mu.Unlock()
}

func (c *Ctx) Counter(name string) int64 {
	c.mu.Lock()
	defer c.mu.Unlock()
	return c.counters[name]
}

// Violation records an oracle hit; at most 5 witnesses per class are kept.
func (c *Ctx) Violation(rule, class, detail string, caseID int64, witness interface{}) {
	c.mu.Lock()
	defer c.mu.Unlock()
	k := rule + "/" + class
	c.violSeen[k]++
	if c.violSeen[k] > 5 {
		return
	}
	c.viol = append(c.viol, Violation{Rule: rule, Class: class, Detail: detail, CaseID: caseID, Witness: witness})
	// also persist immediately so a later crash does not lose it
	b, _ := json.Marshal(map[string]interface{}{"violation": k, "detail": detail, "case": caseID})
	c.caseF.Write(append(b, '\n'))
}

func (c *Ctx) Inconclusive(reason string) {
	c.mu.Lock()
	if len(c.inconcl) < 20 {
		c.inconcl = append(c.inconcl, reason)
	}
	c.mu.Unlock()
}

// Finish writes result.json. Must be called at the end of a normal run.
func (c *Ctx) Finish() {
	c.mu.Lock()
	defer c.mu.Unlock()
	r := Result{Prop: c.Prop, Batch: c.Batch, Seed: c.Seed, Tier: c.Tier, Evaluations: c.evals,
		Distinct: len(c.fps), Samples: c.samples, Violations: c.viol, Inconclusive: c.inconcl,
		Counters: c.counters, Interleavings: len(c.ilv), WallS: time.Since(c.start).Seconds(), Finished: true}
	fps := make([]string, 0, len(c.fps))
	for k := range c.fps {
		fps = append(fps, k)
	}
	sort.Strings(fps)
	if len(fps) > 200000 {
		fps = fps[:200000]
	}
	r.Fingerprints = fps
	if r.Samples == nil {
		r.Samples = []interface{}{}
	}
	if r.Violations == nil {
		r.Violations = []Violation{}
	}
	if r.Inconclusive == nil {
		r.Inconclusive = []string{}
	}
	b, _ := json.MarshalIndent(r, "", " ")
	tmp := filepath.Join(c.OutDir, "result.json.tmp")
	_ = os.WriteFile(tmp, b, 0o644)
	_ = os.Rename(tmp, filepath.Join(c.OutDir, "result.json"))
	c.caseF.Close()
}

// Slice returns the [lo,hi) share of n cases that belongs to this batch.
func (c *Ctx) Slice(n int) (int, int) {
	if c.NBatch <= 1 {
		return 0, n
	}
	per := (n + c.NBatch - 1) / c.NBatch
	lo := c.Batch * per
	hi := lo + per
	if lo > n {
		lo = n
	}
	if hi > n {
		hi = n
	}
	return lo, hi
}

// ReadReplay loads the replay file's "case" object into v.
func (c *Ctx) ReadReplay(v interface{}) error {
	b, err := os.ReadFile(c.Replay)
	if err != nil {
		return err
	}
	var w struct {
		Witness json.RawMessage `json:"witness"`
	}
	if err := json.Unmarshal(b, &w); err != nil {
		return err
	}
	return json.Unmarshal(w.Witness, v)
}
