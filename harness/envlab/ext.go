package envlab

// Additive extensions for monitors that drive the lab's Environment themselves
// (mon-env: C10, C01INP). Nothing here changes what Transition / Teardown / the
// plugin do when the new fields are left at their zero values.

import (
	"runtime"
	"strconv"
	"time"
)

// ProbeInfo is what a verif.Probe() invocation shows to Lab.OnProbe. VarStack is
// the call's own variable stack (what the hook sees); treat it as read-only.
type ProbeInfo struct {
	Lab      *Lab
	Hook     string
	Trigger  string
	VarStack map[string]string
}

// ProbeAction is OnProbe's answer: Snap and Req are stored in the hook_start
// record; Fail makes this invocation report __call_error (as Behaviour
// CallError does) unless the hook's own script already says otherwise; Sleep
// delays the invocation after its hook_start record was written.
type ProbeAction struct {
	Snap  map[string]string
	Req   int
	Fail  bool
	Sleep time.Duration
}

// GoroutineID returns the id of the calling goroutine (from the header line of
// its own stack dump).
func GoroutineID() int {
	var buf [64]byte
	n := runtime.Stack(buf[:], false)
	// "goroutine 123 [running]:"
	s := buf[:n]
	const p = len("goroutine ")
	if len(s) <= p {
		return 0
	}
	i := p
	for i < len(s) && s[i] >= '0' && s[i] <= '9' {
		i++
	}
	id, _ := strconv.Atoi(string(s[p:i]))
	return id
}

// Add appends a record of the caller to the lab's stream (same clock, same
// mutex as the lab's own records) and returns its sequence number.
func (l *Lab) Add(r Record) int64 { return l.add(r) }

// Lab returns the lab of an environment id (nil if unknown or closed).
func (w *World) Lab(envId string) *Lab { return w.lab(envId) }
