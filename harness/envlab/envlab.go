// Package envlab drives a REAL core/environment.Environment (its looplab FSM,
// its four FSM callbacks, handleHooks, runTasksAsHooks, TryTransition and
// Manager.TeardownEnvironment) inside a monitor process and records what the
// hooks of a generated workflow observe.
//
// # What is real, what is simulated
//
// Real: workflow.Load of a generated YAML template (call roles and hook task
// roles with trigger / await / timeout / critical traits), the Environment and
// its state machine, callable.Call (Start / Await / Cancel), the integration
// plugin mechanism (a plugin named "verif" registered through the public
// integration.RegisterPlugin), environment.Manager (event loop and
// TeardownEnvironment), the configuration service (run numbers from the fake
// Consul of verif/harness/inproc).
//
// Simulated, each in a few lines of this package:
//   - the task work of a transition: a Transition built with
//     environment.VerifNewTransition whose body records entry/exit and returns
//     what the caller's BodyFunc returns;
//   - the executor side of hook TASKS: the hook handler installed with
//     environment.VerifSetHookHandler (in the core: taskman.TriggerHooks) records
//     the group it was asked to trigger, and then, per task and per script,
//     delivers an event.BasicTaskTerminated on the environment's device event
//     channel with the non-blocking send of Environment.NotifyEvent (the last hop
//     of the real path envman.handleDeviceEvent -> NotifyEvent), repeated until a
//     collector has taken it (NotifyEvent itself drops the event when the
//     collector is busy; lost notifications are not the subject of C08/C09);
//   - the task manager's answer to ReleaseTasks during teardown
//     (a TasksReleasedEvent on the manager's event channel).
//
// # API
//
//	w, err := envlab.Setup()                        // once per process
//	lab, err := w.NewLab([]envlab.HookSpec{...}, userVars)
//	res := lab.Transition("CONFIGURE", nil)         // real env.TryTransition, with gate controller
//	res  = lab.Transition("START_ACTIVITY", func() error { return errors.New("tasks failed") })
//	lab.SetBehaviour("h3", envlab.OK)               // change a hook's script between transitions
//	tres := lab.Teardown(true)                      // real Manager.TeardownEnvironment + leak check
//	recs := lab.Records()                           // merged, sequence-numbered record stream
//	occs := lab.Occurrences()                       // what was attempted, in order
//	lab.LateNotify("t1")                            // real env.NotifyEvent(exit 0) between transitions
//	lab.Anomalies(), lab.SpuriousTimeouts(), lab.GatedObservedOpen(), lab.TaskName("h3"), lab.Close()
//
// HookSpec: Name, Kind (Call|Task), Trigger, Await ("" = omitted), Timeout ("" =
// DefaultTimeout), Critical (*bool, nil = omitted = documented default true),
// Behaviour (OK, CallError, CallTimeout, CallSlow (+SleepMs), TaskExitNonZero, TaskInvoluntary,
// TaskTimeout, TaskLateReport, TriggerError), Gate, OnlyInv (script applies to
// the n-th invocation only). envlab.Workflow(name, hooks) renders the YAML.
// Positions of the documented order: Pos{K,M,W}, Occurrence{K,Event,Src,Dst}
// with Moments()/MomentIndex(), ParseExpr/Expr, Destination, LegalEvents (pos.go).
// Goroutine inspection helpers: Goroutines() []G, G.Blocked(), G.Has() (stacks.go).
//
// One Lab is driven by one goroutine (the caller); labs of one process are used
// one after the other (goroutine inspection does not tell environments apart).
//
// Extensions for monitors that drive lab.Env / lab.W.Mgr themselves, possibly from
// several goroutines (mon-env: C10, C01INP), all optional and off by default (ext.go):
// Lab.OnProbe (per-invocation snapshot / failure / delay decided by the monitor,
// stored in Record.Snap / Record.Req), Lab.OnRecord, Lab.StampG (Record.G = goroutine
// that wrote the record; environment events are published on the goroutine that
// executes TryTransition / TeardownEnvironment), Lab.Add, World.Lab, GoroutineID.
//
// # Records
//
// Every record carries Seq (vlib.Seq(), process-wide logical clock; the log is
// appended under one mutex, so log order == Seq order) and K, the index of the
// occurrence being driven when it was written. Kinds:
//
//	trans_begin / trans_end   written by the driver around env.TryTransition (Err, State)
//	env_event                 every Ev_EnvironmentEvent the environment published for this
//	                          environment (Step = TransitionStep, Msg = Message), captured with
//	                          the.VerifSetWriter; written on the FSM goroutine
//	body_enter / body_exit    the transition body (FSM goroutine)
//	hook_start / hook_end     one invocation (Inv = 1,2,..) of a hook; for calls written inside
//	                          the plugin function (the call's goroutine), for hook tasks
//	                          hook_start is written in the hook handler (FSM goroutine) and
//	                          hook_end just before the termination event is handed over
//	task_trigger              one invocation of the hook handler (Group = hook names)
//	checkpoint                the controller found the FSM goroutine parked waiting for hooks;
//	                          Open = gated invocations still open, Released = the one it lets go
//	pending                   environment.VerifPendingAwait at a quiescent point
//	teardown_begin / teardown_end, leak (N = call goroutines neither collected nor cancelled)
//	hang                      the driven call has not returned HangSlack after the longest hook
//	                          timeout of the set, nothing was recorded for HangConfirm more, no gate
//	                          the occurrence could be waiting for is closed, and the driver goroutine
//	                          sits in repository code (Msg = innermost repository function). The
//	                          result carries Hang != ""; the lab must be abandoned (no Teardown)
//	note                      something the lab did or saw that is neither (LateNotify; hook phase over
//	                          before a termination was reported)
//	anomaly                   the lab could not do what it wanted (watchdog); monitors report
//	                          these as inconclusive, never as verdicts
//
// # Gates
//
// A hook with Gate=true stays open (the plugin function does not return / the
// termination event is not delivered) until the controller releases it. While a
// transition runs the controller polls the goroutine dump (one consistent
// snapshot per poll); when the FSM goroutine is parked in Calls.AwaitAll or in
// runTasksAsHooks, no goroutine with environment/callable code on its stack is
// anything but parked, every executing hook call sits at a lab gate, no delivery
// is in flight and no record was added since the previous poll, it writes a checkpoint
// record and releases the open gate whose await point is the earliest one that
// the current occurrence can reach. Gates whose await point lies in a later
// occurrence stay open across transitions; gates that should have been awaited
// in the occurrence that just ended are released right after trans_end (their
// hook_end then follows records of later points, which is what the interval
// rule of C08 looks for). Everything still open is released after teardown.
package envlab

import (
	"fmt"
	"strings"
	"sync"
	"time"

	"github.com/sirupsen/logrus"
	"github.com/spf13/viper"

	"github.com/AliceO2Group/Control/common/event"
	"github.com/AliceO2Group/Control/common/event/topic"
	pb "github.com/AliceO2Group/Control/common/protos"
	"github.com/AliceO2Group/Control/common/utils/uid"
	"github.com/AliceO2Group/Control/core/environment"
	"github.com/AliceO2Group/Control/core/integration"
	"github.com/AliceO2Group/Control/core/task"
	"github.com/AliceO2Group/Control/core/task/taskop"
	"github.com/AliceO2Group/Control/core/the"
	"github.com/AliceO2Group/Control/core/workflow/callable"

	"verif/harness/inproc"
)

// World is the per-process setup.
type World struct {
	In  *inproc.Env
	Mgr *environment.Manager

	mu       sync.Mutex
	labs     map[string]*Lab // by environment id
	wfSeq    int
	leakBase int // call goroutines already leaked by earlier labs of this process

	seenCollectors map[int]bool // runTasksAsHooks collector goroutines seen by earlier hook handler invocations

	hookTimeouts map[string]int // task id -> number of "hook response timed out" messages of the environment
}

var (
	world     *World
	worldErr  error
	worldOnce sync.Once
)

// HookTaskClass is the task class name used for hook task roles.
const HookTaskClass = "verif-hook"

// Setup prepares the process: plugin "verif", inproc (fake Consul, repo, task
// manager), environment manager, fake task-manager answers, event capture.
func Setup() (*World, error) {
	worldOnce.Do(func() {
		w := &World{labs: map[string]*Lab{}}
		integration.RegisterPlugin("verif", "verifPluginEndpoint", func(string) integration.Plugin { return &plugin{w: w} })
		viper.Set("verifPluginEndpoint", "in-process")
		viper.Set("integrationPlugins", []string{"verif"})
		in, err := inproc.Setup(map[string]string{
			"workflows/empty.yaml":             "name: empty\nroles: []\n",
			"tasks/" + HookTaskClass + ".yaml": "name: " + HookTaskClass + "\ncontrol:\n  mode: basic\ncommand:\n  value: /bin/true\n",
		}, nil)
		if err != nil {
			worldErr = err
			return
		}
		w.In = in
		if len(integration.PluginsInstance()) != 1 {
			worldErr = fmt.Errorf("envlab: plugin 'verif' not instantiated (integration.PluginsInstance was called before Setup)")
			return
		}
		// the task manager is never started; its message channel is an exported
		// field which Start() would create. We play the manager's part for
		// ReleaseTasks (teardown).
		in.Taskman.MessageChannel = make(chan *task.TaskmanMessage, 64)
		go func() {
			for m := range in.Taskman.MessageChannel {
				switch m.GetMessageType() {
				case taskop.ReleaseTasks:
					ids := m.GetTasks().GetTaskIds()
					in.EventCh <- event.NewTasksReleasedEvent(m.GetEnvironmentId(), ids, map[string]error{})
				case taskop.TransitionTasks:
					// only sent by the REAL transitions (environment.NewStopActivityTransition etc.), which
					// the lab itself never uses: the auto-stop timer of the environment does (mon-env).
					// All tasks "transition" at once and, unless scripted otherwise, without error.
					// A lab may script the answer (Lab.OnTaskCommand, ext.go): nil = every task transitioned.
					var terr error
					if l := w.lab(m.GetEnvironmentId().String()); l != nil && l.OnTaskCommand != nil {
						terr = l.OnTaskCommand(m)
					}
					in.EventCh <- event.NewTasksStateChangedEvent(m.GetEnvironmentId(), m.GetTasks().GetTaskIds(), terr)
				}
			}
		}()
		// The environment reports that it has accounted a hook task as timed out only
		// in its log ("hook response timed out"); the late-report script waits for that
		// message, so warnings must reach logrus hooks (output stays discarded).
		logrus.SetLevel(logrus.WarnLevel)
		logrus.AddHook(&logHook{w: w})
		w.Mgr = environment.NewEnvManager(in.Taskman, in.EventCh)
		the.VerifSetWriter(topic.Environment, &capWriter{w: w})
		world = w
	})
	return world, worldErr
}

func (w *World) lab(envId string) *Lab {
	w.mu.Lock()
	defer w.mu.Unlock()
	return w.labs[envId]
}

// ---------------------------------------------------------------- log observation

type logHook struct{ w *World }

func (h *logHook) Levels() []logrus.Level { return []logrus.Level{logrus.WarnLevel} }
func (h *logHook) Fire(e *logrus.Entry) error {
	if e.Message != "hook response timed out" {
		return nil
	}
	if tid, ok := e.Data["taskId"].(string); ok {
		h.w.mu.Lock()
		if h.w.hookTimeouts == nil {
			h.w.hookTimeouts = map[string]int{}
		}
		h.w.hookTimeouts[tid]++
		h.w.mu.Unlock()
	}
	return nil
}

func (w *World) timeoutsSeen(tid string) int {
	w.mu.Lock()
	defer w.mu.Unlock()
	return w.hookTimeouts[tid]
}

// ---------------------------------------------------------------- capture of published events

type capWriter struct{ w *World }

func (c *capWriter) WriteEvent(e interface{}) {
	ev, ok := e.(*pb.Ev_EnvironmentEvent)
	if !ok || ev == nil {
		return
	}
	if l := c.w.lab(ev.EnvironmentId); l != nil {
		l.add(Record{Kind: KEnvEvent, Step: ev.TransitionStep, Msg: ev.Message, Err: ev.Error, State: ev.State, Event: ev.Transition})
		if ev.Transition == "DESTROY" && ev.Message == "running DESTROY hooks" {
			// TeardownEnvironment has just received the first TasksReleasedEvent and is
			// about to register a second pending-teardown channel; the manager's event
			// loop, which delivered that event, deletes the registration of the
			// environment right after delivering. With a task manager that answers
			// instantly (ours) the two can swap and the teardown then waits forever.
			// Order them the way a real (slow) task manager does: loop first.
			deadline := time.Now().Add(5 * time.Second)
			for !envManagerLoopIdle(Goroutines()) && time.Now().Before(deadline) {
				time.Sleep(50 * time.Microsecond)
			}
		}
	}
}
func (c *capWriter) WriteEventWithTimestamp(e interface{}, _ time.Time) { c.WriteEvent(e) }
func (c *capWriter) Close()                                             {}

// ---------------------------------------------------------------- the plugin

type plugin struct{ w *World }

func (p *plugin) GetName() string            { return "verif" }
func (p *plugin) GetPrettyName() string      { return "verification probe plugin" }
func (p *plugin) GetEndpoint() string        { return "in-process" }
func (p *plugin) GetConnectionState() string { return "READY" }
func (p *plugin) GetData(_ []any) string     { return "" }
func (p *plugin) GetEnvironmentsData(_ []uid.ID) map[uid.ID]string {
	return map[uid.ID]string{}
}
func (p *plugin) GetEnvironmentsShortData(_ []uid.ID) map[uid.ID]string {
	return map[uid.ID]string{}
}
func (p *plugin) Init(string) error { return nil }
func (p *plugin) Destroy() error    { return nil }
func (p *plugin) ObjectStack(map[string]string, map[string]string) map[string]interface{} {
	return map[string]interface{}{}
}

// CallStack offers verif.Probe() to hook calls. Which hook is calling is taken
// from the call itself (role path), its behaviour from the lab's script.
func (p *plugin) CallStack(data interface{}) map[string]interface{} {
	call, ok := data.(*callable.Call)
	if !ok {
		return map[string]interface{}{}
	}
	return map[string]interface{}{
		"Probe": func() string { p.probe(call); return "" },
		// Echo takes one argument (for hook expressions that use a variable)
		"Echo": func(s string) string { p.probe(call); return "" },
	}
}

func lastSegment(path string) string {
	if i := strings.LastIndex(path, "."); i >= 0 {
		return path[i+1:]
	}
	return path
}

func (p *plugin) probe(call *callable.Call) {
	envId := call.VarStack["environment_id"]
	l := p.w.lab(envId)
	if l == nil {
		return
	}
	name := lastSegment(call.GetParentRolePath())
	tr := call.GetTraits()
	vars := map[string]string{}
	for _, k := range []string{"run_number", "run_start_time_ms", "run_start_completion_time_ms", "run_end_time_ms", "run_end_completion_time_ms"} {
		if v, ok := call.VarStack[k]; ok && v != "" {
			vars[k] = v
		}
	}
	var act ProbeAction
	if l.OnProbe != nil {
		act = l.OnProbe(ProbeInfo{Lab: l, Hook: name, Trigger: tr.Trigger, VarStack: call.VarStack})
	}
	inv, beh, gate := l.hookBegin(name, Record{Kind: KHookStart, Hook: name, Trigger: tr.Trigger, Await: tr.Await, Critical: tr.Critical,
		Timeout: tr.Timeout, Vars: vars, State: l.Env.Sm.Current(), Path: call.GetParentRolePath(), Snap: act.Snap, Req: act.Req})
	if act.Fail && beh == OK {
		beh = CallError
	}
	if act.Sleep > 0 {
		time.Sleep(act.Sleep)
	}
	if gate != nil {
		l.waitGate(gate)
	}
	errText := ""
	switch beh {
	case CallSlow:
		// a slow but successful operation: the core never aborts a call at its timeout
		time.Sleep(l.sleepOf(name))
	case CallError:
		errText = FailureText(name, beh)
		call.VarStack["__call_error"] = errText
	case CallTimeout:
		// what real plugins do: run the operation under the declared timeout and
		// report the expiry through __call_error
		d := callable.AcquireTimeout(30*time.Second, call.VarStack, name, envId)
		time.Sleep(d + time.Millisecond)
		errText = FailureText(name, beh)
		call.VarStack["__call_error"] = errText
	}
	l.add(Record{Kind: KHookEnd, Hook: name, Inv: inv, Err: errText})
	if gate != nil {
		l.unbusy()
	}
}

// FailureText is the message a failing hook call reports (it names the hook).
func FailureText(name string, b Behaviour) string {
	switch b {
	case CallError:
		return "verif call " + name + " failed on purpose"
	case CallTimeout:
		return "verif call " + name + " timed out"
	case TriggerError:
		return "verif trigger command for " + name + " could not be sent"
	}
	return ""
}
