package envlab

// Goroutine inspection. The lab never decides a verdict on wall-clock time; where
// it has to know that "the state machine is now blocked waiting for a hook" or
// that "the collector of hook-task results is parked in its select" it looks at
// the goroutine dump (runtime.Stack), the same information a debugger would
// show. Parsing is limited to the header line `goroutine N [state...]:` and to
// substring tests on function names of the repository.

import (
	"regexp"
	"runtime"
	"strconv"
	"strings"
)

// G is one goroutine of a dump.
type G struct {
	ID    int
	State string // "running", "runnable", "select", "chan receive", "chan send", "semacquire", "sync.WaitGroup.Wait", ...
	Text  string // full block, header included
}

var gHeader = regexp.MustCompile(`^goroutine (\d+) \[([^\],]+)(?:, [^\]]*)?\]:`)

// Goroutines returns a parsed dump of all goroutines.
func Goroutines() []G {
	n := 1 << 18
	var buf []byte
	for {
		buf = make([]byte, n)
		m := runtime.Stack(buf, true)
		if m < n {
			buf = buf[:m]
			break
		}
		n *= 2
	}
	var out []G
	for _, blk := range strings.Split(string(buf), "\n\n") {
		blk = strings.TrimLeft(blk, "\n")
		m := gHeader.FindStringSubmatch(blk)
		if m == nil {
			continue
		}
		id, _ := strconv.Atoi(m[1])
		out = append(out, G{ID: id, State: m[2], Text: blk})
	}
	return out
}

// Blocked reports whether the goroutine is parked on something that only
// another goroutine can end (channel operation, select, wait group / semaphore,
// condition variable). Everything else - running, runnable, system call, and
// also the transient waits (mutex, I/O, sleep, GC assist, preempted, ...) -
// counts as "still moving": the lab acts only on goroutines that are certainly
// parked.
func (g G) Blocked() bool {
	switch g.State {
	case "chan receive", "chan send", "select", "semacquire", "sync.WaitGroup.Wait", "sync.Cond.Wait",
		"chan receive (nil chan)", "chan send (nil chan)", "select (no cases)":
		return true
	}
	return false
}

func (g G) Has(sub string) bool { return strings.Contains(g.Text, sub) }

const (
	fnTryTransition = "core/environment.(*Environment).TryTransition("
	fnTeardown      = "core/environment.(*Manager).TeardownEnvironment("
	fnAwaitAll      = "core/workflow/callable.Calls.AwaitAll("
	fnRunTasks      = "core/environment.(*Environment).runTasksAsHooks("
	fnCollector     = "core/environment.(*Environment).runTasksAsHooks.func"
	fnCollectorBy   = "created by github.com/AliceO2Group/Control/core/environment.(*Environment).runTasksAsHooks"
	fnCallCall      = "core/workflow/callable.(*Call).Call("
	fnCallStart     = "core/workflow/callable.(*Call).Start.func"
	fnWaitGate      = "verif/harness/envlab.(*Lab).waitGate("
	fnEnvlab        = "verif/harness/envlab."
	fnEnvManLoop    = "core/environment.NewEnvManager.func1("
)

// driverIDs lists the goroutines that have TryTransition / TeardownEnvironment on
// their stack (used to tell a driver that never returned, left behind by an
// earlier lab watchdog, from the current one; goroutine ids are not monotonic
// in creation order, so "the youngest" cannot be told from the id).
func driverIDs(gs []G) map[int]bool {
	out := map[int]bool{}
	for _, g := range gs {
		if g.Has(fnTryTransition) || g.Has(fnTeardown) {
			out[g.ID] = true
		}
	}
	return out
}

// driverBlockedOnHooks: the goroutine running TryTransition / TeardownEnvironment
// (not one of `stale`) is parked inside AwaitAll (waiting for started calls) or
// inside runTasksAsHooks (waiting for hook tasks), and not inside lab code
// called from there (the hook handler).
func driverBlockedOnHooks(gs []G, stale map[int]bool) (found bool, blocked bool) {
	for _, g := range gs {
		if stale[g.ID] {
			continue
		}
		i := strings.Index(g.Text, fnTryTransition)
		if i < 0 {
			i = strings.Index(g.Text, fnTeardown)
		}
		if i < 0 {
			continue
		}
		above := g.Text[:i]
		return true, g.Blocked() && !strings.Contains(above, fnEnvlab) &&
			(strings.Contains(above, fnAwaitAll) || strings.Contains(above, fnRunTasks))
	}
	return false, false
}

// driverSite describes where the driver goroutine (not one of `stale`) stands:
// parked tells that it is neither running nor runnable, inRepo that no lab code
// is on its stack above TryTransition / TeardownEnvironment, and site is the
// innermost function of the repository on its stack ("callable.Calls.AwaitAll").
func driverSite(gs []G, stale map[int]bool) (found, parked, inRepo bool, site string) {
	for _, g := range gs {
		if stale[g.ID] {
			continue
		}
		i := strings.Index(g.Text, fnTryTransition)
		if i < 0 {
			i = strings.Index(g.Text, fnTeardown)
		}
		if i < 0 {
			continue
		}
		found = true
		parked = g.State != "running" && g.State != "runnable" && g.State != "syscall"
		inRepo = !strings.Contains(g.Text[:i], fnEnvlab)
		for _, ln := range strings.Split(g.Text, "\n") {
			if strings.HasPrefix(ln, "github.com/AliceO2Group/Control/") {
				f := ln
				if j := strings.LastIndex(f, "("); j > 0 {
					f = f[:j]
				}
				if j := strings.LastIndex(f, "/"); j >= 0 {
					f = f[j+1:]
				}
				site = f
				break
			}
		}
		return
	}
	return
}

// envManagerLoopIdle: the environment manager's event loop goroutine is parked
// waiting for its next event.
func envManagerLoopIdle(gs []G) bool {
	for _, g := range gs {
		if g.Has(fnEnvManLoop) {
			return g.State == "chan receive" || g.State == "select"
		}
	}
	return true
}

// callsUnsettled counts goroutines that are executing a hook call
// (callable.(*Call).Call on their stack, or a freshly created Start goroutine
// that has not run yet) and are not parked at a lab gate.
func callsUnsettled(gs []G) int {
	n := 0
	for _, g := range gs {
		if g.Has(fnCallCall) {
			if g.Has(fnWaitGate) {
				continue
			}
			n++
			continue
		}
		if g.Has(fnCallStart) && !g.Blocked() {
			n++
		}
	}
	return n
}

// repoBusy: some goroutine with environment / callable code on its stack is
// running or runnable (e.g. an AwaitAll helper that has received a result but
// has not yet signalled the wait group, a collector about to report). The dump
// is one consistent snapshot, so "driver parked, nothing of the repository
// runnable, every call parked at a gate" means nothing moves until the lab acts
// (or a timer of the code under test fires).
func repoBusy(gs []G) bool {
	for _, g := range gs {
		if g.Blocked() {
			continue
		}
		if g.Has("AliceO2Group/Control/core/environment.") || g.Has("AliceO2Group/Control/core/workflow/callable.") {
			return true
		}
	}
	return false
}

// movingSummary names (state and innermost repository frame) the goroutines that
// repoBusy / callsUnsettled consider still moving; for watchdog diagnostics.
func movingSummary(gs []G) string {
	var out []string
	for _, g := range gs {
		if !(g.Has("AliceO2Group/Control/core/environment.") || g.Has("AliceO2Group/Control/core/workflow/callable.")) {
			continue
		}
		if g.Blocked() && !(g.Has(fnCallCall) && !g.Has(fnWaitGate)) {
			continue
		}
		frame := ""
		for _, ln := range strings.Split(g.Text, "\n") {
			if strings.Contains(ln, "AliceO2Group/Control/") && !strings.HasPrefix(ln, "\t") && !strings.HasPrefix(ln, "created by") {
				frame = ln
				break
			}
		}
		if i := strings.LastIndex(frame, "/"); i >= 0 {
			frame = frame[i+1:]
		}
		out = append(out, "["+g.State+"] "+frame)
		if len(out) >= 4 {
			break
		}
	}
	return strings.Join(out, "; ")
}

// leakedCallSenders counts Start goroutines parked forever on `c.await <- result`:
// calls that returned but were neither collected (Await) nor cancelled.
func leakedCallSenders(gs []G) int {
	n := 0
	for _, g := range gs {
		if g.Has(fnCallStart) && !g.Has(fnCallCall) && g.Blocked() {
			n++
		}
	}
	return n
}

// collectors returns the goroutines started by runTasksAsHooks to collect hook
// task results (not the time.AfterFunc timer goroutines).
func collectors(gs []G) []G {
	var out []G
	for _, g := range gs {
		if g.Has(fnCollector) && g.Has(fnCollectorBy) {
			out = append(out, g)
		}
	}
	return out
}
