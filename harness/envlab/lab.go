package envlab

import (
	"errors"
	"fmt"
	"reflect"
	"sort"
	"strings"
	"sync"
	"time"
	"unsafe"

	mesos "github.com/mesos/mesos-go/api/v1/lib"

	"github.com/AliceO2Group/Control/common/controlmode"
	"github.com/AliceO2Group/Control/common/event"
	"github.com/AliceO2Group/Control/common/utils/uid"
	"github.com/AliceO2Group/Control/core/environment"
	"github.com/AliceO2Group/Control/core/task"
	"github.com/AliceO2Group/Control/core/task/taskclass"
	"github.com/AliceO2Group/Control/core/workflow"
	occpb "github.com/AliceO2Group/Control/executor/protos"

	"verif/harness/inproc"
	"verif/harness/vlib"
)

// ---------------------------------------------------------------- specs

type HookKind string

const (
	Call HookKind = "call"
	Task HookKind = "task"
)

// Behaviour is what a hook invocation does.
type Behaviour string

const (
	OK          Behaviour = "ok"
	CallError   Behaviour = "call_error"   // call: sets __call_error
	CallTimeout Behaviour = "call_timeout" // call: exceeds its own timeout and reports it
	CallSlow    Behaviour = "call_slow"    // call: takes HookSpec.SleepMs (may be far beyond its timeout) and succeeds
	// CallEvalError: the hook expression (HookSpec.Func) cannot be evaluated: the plugin function is
	// never reached, so such a hook leaves no hook_start / hook_end record; it fails in every invocation
	CallEvalError   Behaviour = "call_eval_error"
	TaskExitNonZero Behaviour = "task_exit"        // hook task: exit code 3
	TaskInvoluntary Behaviour = "task_involuntary" // hook task: exit code 0 but not a voluntary termination
	TaskTimeout     Behaviour = "task_timeout"     // hook task: termination never reported
	TriggerError    Behaviour = "trigger_error"    // hook task: the trigger command cannot be sent (handler returns an error)
	// TaskLateReport: hook task reports its (successful) termination only after its timeout
	// has expired. Needs a gated sibling at the same point to keep the collector waiting.
	TaskLateReport Behaviour = "task_late_report"
)

// HookSpec describes one hook role of the generated workflow.
type HookSpec struct {
	Name      string    `json:"name"`
	Kind      HookKind  `json:"kind"`
	Trigger   string    `json:"trigger"`
	Await     string    `json:"await,omitempty"`   // "" = omitted (defaults to trigger)
	Timeout   string    `json:"timeout,omitempty"` // "" = lab default (long)
	Critical  *bool     `json:"critical,omitempty"`
	Behaviour Behaviour `json:"behaviour,omitempty"`
	Gate      bool      `json:"gate,omitempty"`
	// Func overrides the hook expression of a call role ("" = verif.Probe()).
	Func string `json:"func,omitempty"`
	// Return names the variable that receives the call's result (`return:` of a call role; "" = omitted).
	Return string `json:"return,omitempty"`
	// SleepMs is how long a CallSlow invocation takes.
	SleepMs int `json:"sleep_ms,omitempty"`
	// OnlyInv restricts Behaviour and Gate to the n-th invocation (1-based) of the hook; 0 = every invocation.
	OnlyInv int `json:"only_inv,omitempty"`
}

// IsCritical applies the documented default (critical: true when omitted).
func (h HookSpec) IsCritical() bool { return h.Critical == nil || *h.Critical }

// AwaitExpr applies the documented default (await = trigger when omitted).
func (h HookSpec) AwaitExpr() string {
	if h.Await == "" {
		return h.Trigger
	}
	return h.Await
}

// DefaultTimeout is given to hooks that are not meant to time out.
const DefaultTimeout = "25s"

// Bounded progress: nothing in a hook set can legitimately keep a transition
// longer than its longest hook timeout (gates are the lab's own and are opened
// when the FSM waits for them). HangSlack after that the lab takes a first look,
// HangConfirm later a second one.
const (
	HangSlack   = 20 * time.Second
	HangConfirm = 5 * time.Second
)

// ---------------------------------------------------------------- records

type Kind string

const (
	KTransBegin    Kind = "trans_begin"
	KTransEnd      Kind = "trans_end"
	KEnvEvent      Kind = "env_event"
	KBodyEnter     Kind = "body_enter"
	KBodyExit      Kind = "body_exit"
	KHookStart     Kind = "hook_start"
	KHookEnd       Kind = "hook_end"
	KTaskTrigger   Kind = "task_trigger"
	KCheckpoint    Kind = "checkpoint"
	KPending       Kind = "pending"
	KTeardownBegin Kind = "teardown_begin"
	KTeardownEnd   Kind = "teardown_end"
	KLeak          Kind = "leak"
	KAnomaly       Kind = "anomaly"
	KHang          Kind = "hang"
	KNote          Kind = "note"
)

type InvRef struct {
	Hook string `json:"hook"`
	Inv  int    `json:"inv"`
}

type Record struct {
	Seq      int64             `json:"seq"`
	Kind     Kind              `json:"kind"`
	K        int               `json:"k"`
	Hook     string            `json:"hook,omitempty"`
	Inv      int               `json:"inv,omitempty"`
	HookKind HookKind          `json:"hook_kind,omitempty"`
	Trigger  string            `json:"trigger,omitempty"`
	Await    string            `json:"await,omitempty"`
	Timeout  string            `json:"timeout,omitempty"`
	Critical bool              `json:"critical,omitempty"`
	Gated    bool              `json:"gated,omitempty"`
	Path     string            `json:"path,omitempty"`
	Vars     map[string]string `json:"vars,omitempty"`
	Event    string            `json:"event,omitempty"`
	Src      string            `json:"src,omitempty"`
	State    string            `json:"state,omitempty"`
	Step     string            `json:"step,omitempty"`
	Msg      string            `json:"msg,omitempty"`
	Err      string            `json:"err,omitempty"`
	Group    []string          `json:"group,omitempty"`
	Open     []InvRef          `json:"open,omitempty"`
	Released *InvRef           `json:"released,omitempty"`
	Pending  map[string]int    `json:"pending,omitempty"`
	N        int               `json:"n,omitempty"`
	// LateStamp: hook_start written after the occurrence that launched the call had ended (K corrected)
	LateStamp bool `json:"late_stamp,omitempty"`
	// Extensions used by mon-env (see ext.go); absent unless the lab's user asks for them.
	Snap map[string]string `json:"snap,omitempty"` // hook_start: what Lab.OnProbe returned (variables the hook sees, samples)
	G    int               `json:"g,omitempty"`    // goroutine that wrote the record (Lab.StampG)
	Req  int               `json:"req,omitempty"`  // request id, for records added through Lab.Add
}

// ---------------------------------------------------------------- the lab

type hookState struct {
	spec HookSpec
	invs int
	// scriptedTimeouts: invocations whose script lets the environment's timer expire
	// (each makes the environment log exactly one "hook response timed out")
	scriptedTimeouts int
	task             *task.Task
	tname            string // trigger moment name
	tw               int
	aname            string
	aw               int
}

type gate struct {
	ref  InvRef
	k    int // occurrence in which the invocation started
	ch   chan struct{}
	open bool
	hs   *hookState
}

type Lab struct {
	W   *World
	Env *environment.Environment
	ID  string

	mu        sync.Mutex
	recs      []Record
	hooks     map[string]*hookState
	byTaskID  map[string]*hookState
	k         int
	cur       Occurrence
	occs      []Occurrence
	gates     []*gate
	busy      int // hook task terminations being handed over + released gated invocations that have not ended yet
	deliverMu sync.Mutex
	root      workflow.Role
	anomalies int
	gatedSeen int

	// Optional extensions (ext.go). Set them right after NewLab, before the first transition.
	OnProbe  func(ProbeInfo) ProbeAction // called by every verif.Probe() invocation before its hook_start record
	OnRecord func(*Record)               // called for every record, under the lab's mutex, after Seq/G were set
	StampG   bool                        // stamp every record with the id of the goroutine that wrote it
	// OnTaskCommand plays the task manager for the REAL transitions (environment.NewStartActivityTransition
	// etc. built on W.In.Taskman): called on the fake task manager's goroutine for every TransitionTasks
	// message of this environment; the returned error is reported back as "tasks failed to transition".
	OnTaskCommand func(*task.TaskmanMessage) error

	hangAfter       time.Duration
	hung            bool
	lateUnconfirmed int

	// PollInterval is the controller's polling period.
	PollInterval time.Duration
	// Watchdog bounds every wait of the lab; expiry yields an anomaly record.
	Watchdog time.Duration
}

// myParentRole mirrors task's unexported parentRole interface so that a
// workflow task role can be passed to task.VerifNewTask.
type myParentRole = task.VerifParentRole

// Workflow renders the workflow template for a hook set.
func Workflow(name string, hooks []HookSpec) string {
	var sb strings.Builder
	fmt.Fprintf(&sb, "name: %s\nroles:\n", name)
	for _, h := range hooks {
		fmt.Fprintf(&sb, "  - name: %q\n", h.Name)
		if h.Kind == Task {
			fmt.Fprintf(&sb, "    task:\n      load: %s\n", HookTaskClass)
		} else {
			fn := h.Func
			if fn == "" {
				fn = "verif.Probe()"
			}
			fmt.Fprintf(&sb, "    call:\n      func: %q\n", fn)
			if h.Return != "" {
				fmt.Fprintf(&sb, "      return: %q\n", h.Return)
			}
		}
		// trigger and await are template fields of a call role: every third call role spells one of them as a
		// template expression (a string literal), which means the same as the plain text
		trig, aw := h.Trigger, h.Await
		if h.Kind != Task && !strings.ContainsAny(trig+aw, "'{") {
			sum := 0
			for _, b := range []byte(h.Name) {
				sum += int(b)
			}
			switch sum % 3 {
			case 1:
				if aw != "" {
					aw = "{{ '" + aw + "' }}"
				}
			case 2:
				trig = "{{ '" + trig + "' }}"
			}
		}
		fmt.Fprintf(&sb, "      trigger: %q\n", trig)
		if aw != "" {
			fmt.Fprintf(&sb, "      await: %q\n", aw)
		}
		to := h.Timeout
		if to == "" {
			to = DefaultTimeout
		}
		fmt.Fprintf(&sb, "      timeout: %q\n", to)
		if h.Critical != nil {
			fmt.Fprintf(&sb, "      critical: %v\n", *h.Critical)
		}
	}
	if len(hooks) == 0 {
		sb.WriteString("  []\n")
	}
	return sb.String()
}

var hookClass = &taskclass.Class{
	Identifier: taskclass.Id{Name: HookTaskClass},
	Control: struct {
		Mode controlmode.ControlMode "yaml:\"mode\""
	}{Mode: controlmode.BASIC},
}

// NewLab loads the workflow for the hook set with the real workflow.Load, makes
// a real Environment for it (STANDBY), attaches a task to every hook task role
// and registers the environment with the manager.
func (w *World) NewLab(hooks []HookSpec, userVars map[string]string) (*Lab, error) {
	w.mu.Lock()
	w.wfSeq++
	wfName := fmt.Sprintf("hk%d", w.wfSeq)
	w.mu.Unlock()
	if err := w.In.WriteRepoFile("workflows/"+wfName+".yaml", Workflow(wfName, hooks)); err != nil {
		return nil, err
	}
	if userVars == nil {
		userVars = map[string]string{}
	}
	id := uid.New()
	env, err := environment.VerifNewEnvironment(userVars, id)
	if err != nil {
		return nil, err
	}
	l := &Lab{W: w, Env: env, ID: id.String(), hooks: map[string]*hookState{}, byTaskID: map[string]*hookState{}, k: -1,
		PollInterval: 100 * time.Microsecond, Watchdog: 60 * time.Second}
	maxTimeout, _ := time.ParseDuration(DefaultTimeout)
	for _, h := range hooks {
		if d, err := time.ParseDuration(h.Timeout); err == nil && d > maxTimeout {
			maxTimeout = d
		}
	}
	l.hangAfter = maxTimeout + HangSlack
	if l.Watchdog < l.hangAfter+2*HangConfirm+10*time.Second {
		l.Watchdog = l.hangAfter + 2*HangConfirm + 10*time.Second
	}
	for _, h := range hooks {
		hs := &hookState{spec: h}
		hs.tname, hs.tw = ParseExpr(h.Trigger)
		hs.aname, hs.aw = ParseExpr(h.AwaitExpr())
		if _, dup := l.hooks[h.Name]; dup {
			return nil, fmt.Errorf("envlab: duplicate hook name %s", h.Name)
		}
		l.hooks[h.Name] = hs
	}
	root, err := w.In.Load(wfName, environment.VerifParent(env), userVars, env.BaseConfigStack)
	if err != nil {
		return nil, fmt.Errorf("workflow.Load: %w", err)
	}
	l.root = root
	for _, r := range inproc.Roles(root) {
		hs := l.hooks[r.GetName()]
		if hs == nil || hs.spec.Kind != Task {
			continue
		}
		pr, ok := r.(myParentRole)
		if !ok {
			return nil, fmt.Errorf("envlab: role %s does not implement task's parent role interface", r.GetPath())
		}
		tid := fmt.Sprintf("%s-%s", l.ID, hs.spec.Name)
		t := task.VerifNewTask(hookClass, pr, HookTaskClass, tid, "host-"+hs.spec.Name, "agent-"+hs.spec.Name, "exec-"+hs.spec.Name)
		pr.SetTask(t)
		hs.task = t
		l.byTaskID[tid] = hs
	}
	environment.VerifSetWorkflow(env, root)
	environment.VerifSetHookHandler(env, l.hookHandler)
	environment.VerifAdopt(w.Mgr, env)
	w.mu.Lock()
	w.labs[l.ID] = l
	w.mu.Unlock()
	return l, nil
}

// Close forgets the lab (records are kept by the caller).
func (l *Lab) Close() {
	l.W.mu.Lock()
	delete(l.W.labs, l.ID)
	l.W.mu.Unlock()
}

func (l *Lab) add(r Record) int64 {
	l.mu.Lock()
	defer l.mu.Unlock()
	return l.addLocked(r)
}

func (l *Lab) addLocked(r Record) int64 {
	r.Seq = vlib.Seq()
	r.K = l.k
	if l.StampG && r.G == 0 {
		r.G = GoroutineID()
	}
	l.recs = append(l.recs, r)
	if l.OnRecord != nil {
		l.OnRecord(&l.recs[len(l.recs)-1])
	}
	return r.Seq
}

// Records returns a copy of the record stream.
func (l *Lab) Records() []Record {
	l.mu.Lock()
	defer l.mu.Unlock()
	return append([]Record(nil), l.recs...)
}

// Occurrences returns the attempted transitions (and the teardown) in order.
func (l *Lab) Occurrences() []Occurrence {
	l.mu.Lock()
	defer l.mu.Unlock()
	return append([]Occurrence(nil), l.occs...)
}

// Anomalies is the number of anomaly records written so far.
func (l *Lab) Anomalies() int {
	l.mu.Lock()
	defer l.mu.Unlock()
	return l.anomalies
}

// GatedObservedOpen is the number of gated invocations that the controller saw
// open at a checkpoint (FSM parked) before releasing them.
func (l *Lab) GatedObservedOpen() int {
	l.mu.Lock()
	defer l.mu.Unlock()
	return l.gatedSeen
}

func (l *Lab) anomaly(msg string) {
	l.mu.Lock()
	l.anomalies++
	l.addLocked(Record{Kind: KAnomaly, Msg: msg})
	l.mu.Unlock()
}

// SetBehaviour changes the script of a hook for its future invocations.
func (l *Lab) SetBehaviour(name string, b Behaviour, gate bool, onlyInv int) {
	l.mu.Lock()
	defer l.mu.Unlock()
	if hs := l.hooks[name]; hs != nil {
		hs.spec.Behaviour, hs.spec.Gate, hs.spec.OnlyInv = b, gate, onlyInv
	}
}

// hookBegin registers an invocation, writes its hook_start record and returns
// the behaviour and (if gated) the gate to wait on.
func (l *Lab) hookBegin(name string, r Record) (inv int, beh Behaviour, g chan struct{}) {
	l.mu.Lock()
	defer l.mu.Unlock()
	hs := l.hooks[name]
	if hs == nil {
		r.Msg = "unknown hook"
		l.addLocked(r)
		return 0, OK, nil
	}
	hs.invs++
	inv = hs.invs
	beh = OK
	gated := false
	if hs.spec.OnlyInv == 0 || hs.spec.OnlyInv == inv {
		if hs.spec.Behaviour != "" {
			beh = hs.spec.Behaviour
		}
		gated = hs.spec.Gate
	}
	r.Inv = inv
	r.HookKind = hs.spec.Kind
	r.Gated = gated
	l.addLocked(r)
	if hs.spec.Kind == Task && (beh == TaskTimeout || beh == TaskLateReport) {
		hs.scriptedTimeouts++
	}
	// A call writes this record from its own goroutine, possibly long after the FSM
	// goroutine launched it. The lab waits after every occurrence until all launched
	// calls have got here (settle), but should one still arrive after the next
	// occurrence has begun, it belongs to the nearest earlier occurrence that has
	// its trigger moment, not to the current one.
	if hs.spec.Kind == Call && l.cur.MomentIndex(hs.tname) < 0 {
		for i := len(l.occs) - 2; i >= 0; i-- {
			if l.occs[i].MomentIndex(hs.tname) >= 0 {
				rec := &l.recs[len(l.recs)-1]
				rec.K = l.occs[i].K
				rec.LateStamp = true
				break
			}
		}
	}
	if gated {
		gt := &gate{ref: InvRef{name, inv}, k: l.recs[len(l.recs)-1].K, ch: make(chan struct{}), open: true, hs: hs}
		l.gates = append(l.gates, gt)
		g = gt.ch
	}
	return
}

func (l *Lab) waitGate(ch chan struct{}) { <-ch }

func (l *Lab) sleepOf(name string) time.Duration {
	l.mu.Lock()
	defer l.mu.Unlock()
	if hs := l.hooks[name]; hs != nil {
		return time.Duration(hs.spec.SleepMs) * time.Millisecond
	}
	return 0
}

func (l *Lab) openGates() []*gate {
	var out []*gate
	for _, g := range l.gates {
		if g.open {
			out = append(out, g)
		}
	}
	return out
}

// duePos returns the position at which the current occurrence awaits the gated
// invocation, if it does.
func (l *Lab) duePos(g *gate) (Pos, bool) {
	if g.hs.spec.Kind == Task {
		// hook tasks are run synchronously at their trigger point (finishing
		// before the await point is allowed), so that is where the FSM waits
		if g.k != l.cur.K {
			return Pos{}, false
		}
		if tm := l.cur.MomentIndex(g.hs.tname); tm >= 0 {
			return Pos{l.cur.K, tm, g.hs.tw}, true
		}
		return Pos{}, false
	}
	m := l.cur.MomentIndex(g.hs.aname)
	if m < 0 {
		return Pos{}, false
	}
	p := Pos{l.cur.K, m, g.hs.aw}
	if g.k == l.cur.K {
		tm := l.cur.MomentIndex(g.hs.tname)
		if tm >= 0 && p.Less(Pos{l.cur.K, tm, g.hs.tw}) {
			return Pos{}, false // the await point precedes the trigger point in this occurrence
		}
	}
	return p, true
}

// release opens the gate (l.mu held). The invocation counts as busy until it ends.
func (l *Lab) release(g *gate) {
	if g.open {
		g.open = false
		l.busy++
		close(g.ch)
	}
}

// unbusy is called when a released gated invocation (or an ungated delivery) is over.
func (l *Lab) unbusy() {
	l.mu.Lock()
	l.busy--
	l.mu.Unlock()
}

// ---------------------------------------------------------------- hook tasks (executor side)

func (l *Lab) hookHandler(tasks task.Tasks) error {
	// runs on the FSM goroutine, right after runTasksAsHooks started its collector
	// (goroutine ids are not monotonic in creation order: the new collector is the
	// one this process has not seen at an earlier handler invocation)
	collectorID := l.W.newCollector(collectors(Goroutines()))
	if collectorID == 0 {
		l.anomaly("hook handler: cannot identify the collector goroutine of this trigger")
	}
	type started struct {
		hs   *hookState
		inv  int
		beh  Behaviour
		gate chan struct{}
	}
	var group []string
	var sts []started
	var sendErr error
	for _, t := range tasks {
		l.mu.Lock()
		hs := l.byTaskID[t.GetTaskId()]
		l.mu.Unlock()
		if hs == nil {
			l.anomaly("hook handler called with unknown task " + t.GetTaskId())
			continue
		}
		group = append(group, hs.spec.Name)
	}
	l.add(Record{Kind: KTaskTrigger, Group: group})
	for _, t := range tasks {
		l.mu.Lock()
		hs := l.byTaskID[t.GetTaskId()]
		l.mu.Unlock()
		if hs == nil {
			continue
		}
		tr := t.GetTraits()
		inv, beh, gt := l.hookBegin(hs.spec.Name, Record{Kind: KHookStart, Hook: hs.spec.Name, Trigger: tr.Trigger, Await: tr.Await,
			Critical: tr.Critical, Timeout: tr.Timeout, State: l.Env.Sm.Current(), Path: t.GetParentRolePath()})
		sts = append(sts, started{hs, inv, beh, gt})
		if beh == TriggerError && sendErr == nil {
			sendErr = errors.New(FailureText(hs.spec.Name, TriggerError))
		}
	}
	if sendErr != nil {
		for _, s := range sts {
			l.mu.Lock()
			for _, g := range l.gates {
				if g.ref.Hook == s.hs.spec.Name && g.ref.Inv == s.inv && g.open {
					g.open = false // never ran: nothing to hold open
					close(g.ch)
				}
			}
			l.mu.Unlock()
			l.add(Record{Kind: KHookEnd, Hook: s.hs.spec.Name, Inv: s.inv, Err: sendErr.Error(), Msg: "trigger not sent"})
		}
		return sendErr
	}
	for _, s := range sts {
		s := s
		if s.gate == nil {
			l.mu.Lock()
			l.busy++
			l.mu.Unlock()
		}
		go l.deliver(s.hs, s.inv, s.beh, s.gate, collectorID)
	}
	return nil
}

func (l *Lab) deliver(hs *hookState, inv int, beh Behaviour, gt chan struct{}, collectorID int) {
	if gt != nil {
		l.waitGate(gt) // release() made it busy
	}
	defer l.unbusy()
	if beh == TaskTimeout {
		return // the executor never reports; the environment's own timer decides
	}
	if beh == TaskLateReport {
		// report only after the environment has accounted the hook as timed out: it says
		// so in its log, right before it goes back to waiting for the other hooks (a
		// late-report hook times out in every one of its invocations, so the inv-th
		// message belongs to this invocation)
		d, err := time.ParseDuration(hs.spec.Timeout)
		if err != nil {
			d = 30 * time.Millisecond
		}
		tid := hs.task.GetTaskId()
		limit := time.Now().Add(d + 5*time.Second)
		for l.W.timeoutsSeen(tid) < inv && time.Now().Before(limit) {
			time.Sleep(time.Millisecond)
		}
		if l.W.timeoutsSeen(tid) < inv {
			l.mu.Lock()
			l.lateUnconfirmed++
			l.mu.Unlock()
		}
	}
	l.deliverMu.Lock()
	defer l.deliverMu.Unlock()
	// Environment.NotifyEvent is a non-blocking send on an unbuffered channel:
	// it only reaches the collector if that goroutine is parked in its select.
	deadline := time.Now().Add(l.Watchdog)
	for {
		parked, exists := false, false
		for _, g := range collectors(Goroutines()) {
			if g.ID == collectorID {
				exists = true
				parked = g.State == "select"
			}
		}
		if parked {
			break
		}
		if !exists {
			l.collectorGone(hs, inv, beh)
			return
		}
		if time.Now().After(deadline) {
			l.anomaly("collector goroutine never parked in select")
			break
		}
		time.Sleep(l.PollInterval)
	}
	ev := event.NewDeviceEvent(event.DeviceEventOrigin{
		AgentId:    mesos.AgentID{Value: hs.task.GetAgentId()},
		ExecutorId: mesos.ExecutorID{Value: hs.task.GetExecutorId()},
		TaskId:     mesos.TaskID{Value: hs.task.GetTaskId()},
	}, occpb.DeviceEventType_BASIC_TASK_TERMINATED).(*event.BasicTaskTerminated)
	ev.VoluntaryTermination = true
	ev.FinalMesosState = mesos.TASK_FINISHED
	msg := ""
	switch beh {
	case TaskExitNonZero:
		ev.ExitCode = 3
		ev.FinalMesosState = mesos.TASK_FAILED
		msg = "exit 3"
	case TaskInvoluntary:
		ev.VoluntaryTermination = false
		ev.FinalMesosState = mesos.TASK_KILLED
		msg = "involuntary"
	}
	l.add(Record{Kind: KHookEnd, Hook: hs.spec.Name, Inv: inv, Err: msg})
	ch := l.incomingEvents()
	if ch == nil {
		l.Env.NotifyEvent(ev) // field not found (refactored?): the real, lossy call
		return
	}
	// What Environment.NotifyEvent does, repeated until a collector takes the event:
	// between the snapshot above and the send a timer of the environment may have
	// woken the collector, and a lost termination is not what C08/C09 are about.
	for {
		select {
		case ch <- ev:
			return
		default:
		}
		exists := false
		for _, g := range collectors(Goroutines()) {
			if g.ID == collectorID {
				exists = true
			}
		}
		if !exists {
			l.collectorGone(hs, inv, beh)
			return
		}
		if time.Now().After(deadline) {
			l.anomaly("termination event of hook task " + hs.spec.Name + " never taken")
			return
		}
		time.Sleep(l.PollInterval)
	}
}

// collectorGone: the hook phase ended before the lab had reported the termination of
// this hook task. Either the environment's own timer for it expired first (the lab
// was too slow for a short timeout: see SpuriousTimeouts), or the environment
// finished the phase without this task's result - which is for the oracle to judge.
// A termination reported to nobody is dropped, as Environment.NotifyEvent would.
func (l *Lab) collectorGone(hs *hookState, inv int, beh Behaviour) {
	if beh == TaskLateReport {
		return
	}
	l.add(Record{Kind: KNote, Hook: hs.spec.Name, Inv: inv, Msg: "hook phase over before the termination of this hook task was reported"})
}

// SpuriousTimeouts counts timeouts of hook tasks which the environment accounted
// (its log says so) although no script asked for one: the lab was slower than a
// short hook timeout. Monitors do not judge such a case.
func (l *Lab) SpuriousTimeouts() int {
	l.mu.Lock()
	defer l.mu.Unlock()
	n := 0
	for _, hs := range l.hooks {
		if hs.task != nil {
			if d := l.W.timeoutsSeen(hs.task.GetTaskId()) - hs.scriptedTimeouts; d > 0 {
				n += d
			}
		}
	}
	return n
}

// LateNotify reports, through the real Environment.NotifyEvent, a successful
// termination (exit 0) of a hook task - to be used between transitions, when no
// hook phase is running: the report of an earlier run that comes too late.
func (l *Lab) LateNotify(hook string) {
	l.mu.Lock()
	hs := l.hooks[hook]
	l.mu.Unlock()
	if hs == nil || hs.task == nil {
		return
	}
	ev := event.NewDeviceEvent(event.DeviceEventOrigin{
		AgentId:    mesos.AgentID{Value: hs.task.GetAgentId()},
		ExecutorId: mesos.ExecutorID{Value: hs.task.GetExecutorId()},
		TaskId:     mesos.TaskID{Value: hs.task.GetTaskId()},
	}, occpb.DeviceEventType_BASIC_TASK_TERMINATED).(*event.BasicTaskTerminated)
	ev.VoluntaryTermination = true
	ev.FinalMesosState = mesos.TASK_FINISHED
	l.add(Record{Kind: KNote, Hook: hook, Msg: "late termination report (exit 0) through NotifyEvent, no hook phase running"})
	l.Env.NotifyEvent(ev)
}

// incomingEvents returns the environment's (unexported) device event channel,
// the one Environment.NotifyEvent sends on.
func (l *Lab) incomingEvents() chan event.DeviceEvent {
	v := reflect.ValueOf(l.Env).Elem().FieldByName("incomingEvents")
	if !v.IsValid() || v.Kind() != reflect.Chan {
		return nil
	}
	return *(*chan event.DeviceEvent)(unsafe.Pointer(v.UnsafeAddr()))
}

// TaskName is the name the environment uses for a hook task in its messages.
func (l *Lab) TaskName(hook string) string {
	l.mu.Lock()
	defer l.mu.Unlock()
	if hs := l.hooks[hook]; hs != nil && hs.task != nil {
		return hs.task.GetName()
	}
	return ""
}

// ---------------------------------------------------------------- driving

// BodyFunc stands for the task work of a transition.
type BodyFunc func() error

// TransResult is what the caller of a transition sees.
type TransResult struct {
	Occ     Occurrence
	Err     error
	ErrText string
	State   string         // CurrentState() afterwards
	Pending map[string]int // VerifPendingAwait afterwards (quiescent)
	// Hang != "": the transition never returned (innermost repository function the driver
	// goroutine sits in); Err/State are meaningless and the lab must be abandoned.
	Hang string
}

// Transition runs env.TryTransition(event) with the gate controller and returns
// when the transition has returned, overdue gates have been released and every
// started hook call has reached its plugin function.
func (l *Lab) Transition(ev string, body BodyFunc) TransResult {
	src := l.Env.CurrentState()
	l.mu.Lock()
	l.k++
	occ := Occurrence{K: l.k, Event: ev, Src: src, Dst: Destination(ev, src)}
	l.cur = occ
	l.occs = append(l.occs, occ)
	l.addLocked(Record{Kind: KTransBegin, Event: ev, Src: src, State: src})
	l.mu.Unlock()

	done := make(chan error, 1)
	tr := environment.VerifNewTransition(ev, func(*environment.Environment) error {
		l.add(Record{Kind: KBodyEnter, Event: ev})
		var err error
		if body != nil {
			err = body()
		}
		r := Record{Kind: KBodyExit, Event: ev}
		if err != nil {
			r.Err = err.Error()
		}
		l.add(r)
		return err
	})
	stale := driverIDs(Goroutines())
	go func() { done <- l.Env.TryTransition(tr) }()
	err, hang := l.control(done, stale)
	if hang != "" {
		return TransResult{Occ: occ, Hang: hang}
	}
	res := TransResult{Occ: occ, Err: err, State: l.Env.CurrentState()}
	r := Record{Kind: KTransEnd, Event: ev, Src: src, State: res.State}
	if err != nil {
		res.ErrText = err.Error()
		r.Err = res.ErrText
	}
	l.add(r)
	l.afterOccurrence()
	res.Pending = environment.VerifPendingAwait(l.Env)
	l.add(Record{Kind: KPending, Pending: res.Pending})
	return res
}

// TeardownResult is what the caller of a teardown sees.
type TeardownResult struct {
	Occ     Occurrence
	Err     error
	State   string
	Leaked  int // call goroutines of this lab neither collected nor cancelled
	Pending map[string]int
	Hang    string // as TransResult.Hang
}

// Teardown runs the real Manager.TeardownEnvironment (which handles the
// leave_<state> hooks, the DESTROY hooks and cancels the calls still pending),
// then releases every gate and counts call goroutines that stay parked.
func (l *Lab) Teardown(force bool) TeardownResult {
	src := l.Env.CurrentState()
	l.mu.Lock()
	l.k++
	occ := Occurrence{K: l.k, Event: "DESTROY", Src: src, Dst: "DONE"}
	l.cur = occ
	l.occs = append(l.occs, occ)
	l.addLocked(Record{Kind: KTeardownBegin, Event: "DESTROY", Src: src, State: src})
	l.mu.Unlock()
	done := make(chan error, 1)
	stale := driverIDs(Goroutines())
	go func() { done <- l.W.Mgr.TeardownEnvironment(l.Env.Id(), force) }()
	err, hang := l.control(done, stale)
	if hang != "" {
		return TeardownResult{Occ: occ, Hang: hang}
	}
	res := TeardownResult{Occ: occ, Err: err, State: l.Env.CurrentState()}
	r := Record{Kind: KTeardownEnd, Event: "DESTROY", State: res.State}
	if err != nil {
		r.Err = err.Error()
	}
	l.add(r)
	// everything still open is released now
	l.mu.Lock()
	for _, g := range l.openGates() {
		l.release(g)
	}
	l.mu.Unlock()
	l.settle()
	res.Pending = environment.VerifPendingAwait(l.Env)
	// a cancelled call's goroutine leaves its select as soon as it is scheduled
	deadline := time.Now().Add(2 * time.Second)
	leaked := 0
	for {
		gs := Goroutines()
		leaked = leakedCallSenders(gs) - l.W.leakBaseGet()
		if leaked <= 0 || time.Now().After(deadline) {
			break
		}
		time.Sleep(time.Millisecond)
	}
	if leaked < 0 {
		leaked = 0
	}
	if leaked > 0 {
		// confirm: parked goroutines do not go away by themselves
		time.Sleep(20 * time.Millisecond)
		leaked = leakedCallSenders(Goroutines()) - l.W.leakBaseGet()
		if leaked < 0 {
			leaked = 0
		}
	}
	l.W.leakBaseAdd(leaked)
	res.Leaked = leaked
	l.add(Record{Kind: KLeak, N: leaked})
	return res
}

// newCollector returns the id of the one collector goroutine not seen before (0 if
// there is not exactly one) and remembers all of them.
func (w *World) newCollector(cs []G) int {
	w.mu.Lock()
	defer w.mu.Unlock()
	if w.seenCollectors == nil {
		w.seenCollectors = map[int]bool{}
	}
	id, n := 0, 0
	for _, g := range cs {
		if !w.seenCollectors[g.ID] {
			id = g.ID
			n++
		}
		w.seenCollectors[g.ID] = true
	}
	if n != 1 {
		return 0
	}
	return id
}

func (w *World) leakBaseGet() int {
	w.mu.Lock()
	defer w.mu.Unlock()
	return w.leakBase
}

func (w *World) leakBaseAdd(n int) {
	w.mu.Lock()
	w.leakBase += n
	w.mu.Unlock()
}

// control polls until the driven call returns; see the package comment.
func (l *Lab) control(done chan error, stale map[int]bool) (error, string) {
	start := time.Now()
	hangLooked := false
	lastN := -1
	quietStreak := 0
	for {
		select {
		case err := <-done:
			return err, ""
		default:
		}
		if !hangLooked && time.Since(start) > l.hangAfter {
			hangLooked = true
			if err, site, decided := l.hangCheck(done, stale); decided {
				return err, site
			}
		}
		gs := Goroutines()
		found, blocked := driverBlockedOnHooks(gs, stale)
		l.mu.Lock()
		n := len(l.recs)
		stable := n == lastN
		lastN = n
		busy := l.busy
		l.mu.Unlock()
		quiet := found && blocked && stable && busy == 0 && callsUnsettled(gs) == 0 && !repoBusy(gs)
		if quiet {
			quietStreak++
		} else {
			quietStreak = 0
		}
		if quiet && quietStreak >= 2 { // two consecutive quiet snapshots
			l.mu.Lock()
			var best *gate
			var bestPos Pos
			open := l.openGates()
			for _, g := range open {
				if p, ok := l.duePos(g); ok && (best == nil || p.Less(bestPos)) {
					best, bestPos = g, p
				}
			}
			if best != nil {
				refs := make([]InvRef, 0, len(open))
				for _, g := range open {
					refs = append(refs, g.ref)
				}
				sort.Slice(refs, func(i, j int) bool {
					if refs[i].Hook != refs[j].Hook {
						return refs[i].Hook < refs[j].Hook
					}
					return refs[i].Inv < refs[j].Inv
				})
				rel := best.ref
				l.addLocked(Record{Kind: KCheckpoint, Open: refs, Released: &rel})
				l.gatedSeen++
				l.release(best)
				lastN = -1
				quietStreak = 0
			}
			l.mu.Unlock()
		}
		if time.Since(start) > l.Watchdog {
			l.anomaly(fmt.Sprintf("watchdog: driven call did not return; releasing all gates (driver found=%v parked-on-hooks=%v, records stable=%v, busy=%d, calls unsettled=%d, moving: %s)",
				found, blocked, stable, busy, callsUnsettled(gs), movingSummary(gs)))
			l.mu.Lock()
			for _, g := range l.openGates() {
				l.release(g)
			}
			l.mu.Unlock()
			select {
			case err := <-done:
				return err, ""
			case <-time.After(l.Watchdog):
				l.anomaly("watchdog: driven call stuck for good")
				return errors.New("envlab: watchdog"), ""
			}
		}
		time.Sleep(l.PollInterval)
	}
}

// hangCheck is the bounded-progress rule (see HangSlack). First look: every gate
// the current occurrence could be waiting for is opened (whatever kept the
// controller from doing so) and the number of records is noted. Second look,
// HangConfirm later: if the driven call still has not returned, nothing was
// recorded, nothing of the lab is in flight and the driver goroutine is parked
// in repository code, the call is declared hung.
func (l *Lab) hangCheck(done chan error, stale map[int]bool) (error, string, bool) {
	look := func() (int, bool) {
		l.mu.Lock()
		defer l.mu.Unlock()
		opened := false
		for _, g := range l.openGates() {
			if _, due := l.duePos(g); due {
				l.release(g)
				opened = true
			}
		}
		return len(l.recs), opened
	}
	n1, _ := look()
	for round := 0; round < 3; round++ {
		select {
		case err := <-done:
			return err, "", true
		case <-time.After(HangConfirm):
		}
		n2, opened := look()
		if !opened {
			// Nothing moves although every gate the occurrence should wait for is open. If
			// the state machine is waiting for a hook the lab still holds (at a point where
			// the model does not expect it to wait), that is for the ordering rules to
			// judge, not a hang: let everything go and look again.
			l.mu.Lock()
			if rest := l.openGates(); len(rest) > 0 {
				l.addLocked(Record{Kind: KNote, Msg: fmt.Sprintf("driven call makes no progress: opening %d gates the current occurrence is not expected to wait for", len(rest))})
				for _, g := range rest {
					l.release(g)
				}
				opened = true
			}
			l.mu.Unlock()
		}
		gs := Goroutines()
		found, parked, inRepo, site := driverSite(gs, stale)
		l.mu.Lock()
		busy := l.busy
		l.mu.Unlock()
		if n2 == n1 && !opened && busy == 0 && found && parked && inRepo && site != "" {
			l.mu.Lock()
			l.hung = true
			l.addLocked(Record{Kind: KHang, Msg: site, Event: l.cur.Event})
			l.mu.Unlock()
			return nil, site, true
		}
		n1 = n2
	}
	return nil, "", false // still moving: the ordinary watchdog goes on
}

// Hung tells whether a driven call of this lab never returned.
func (l *Lab) Hung() bool {
	l.mu.Lock()
	defer l.mu.Unlock()
	return l.hung
}

// LateUnconfirmed counts late-report invocations for which the lab could not
// confirm (from the environment's log) that the timeout had been accounted
// before the late termination was handed over.
func (l *Lab) LateUnconfirmed() int {
	l.mu.Lock()
	defer l.mu.Unlock()
	return l.lateUnconfirmed
}

// afterOccurrence releases the gates the finished occurrence should have
// awaited, and waits until every hook call started by it is inside (or done
// with) its plugin function and every delivery is through.
func (l *Lab) afterOccurrence() {
	l.mu.Lock()
	for _, g := range l.openGates() {
		if _, due := l.duePos(g); due {
			l.release(g)
		}
	}
	l.mu.Unlock()
	l.settle()
}

func (l *Lab) settle() {
	deadline := time.Now().Add(l.Watchdog)
	clean := 0
	for {
		gs := Goroutines()
		l.mu.Lock()
		d := l.busy
		l.mu.Unlock()
		if d == 0 && callsUnsettled(gs) == 0 && !repoBusy(gs) {
			clean++
			if clean >= 2 { // two consecutive clean snapshots
				return
			}
		} else {
			clean = 0
		}
		if time.Now().After(deadline) {
			l.anomaly("watchdog: hooks did not settle")
			return
		}
		time.Sleep(l.PollInterval)
	}
}
