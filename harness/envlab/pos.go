package envlab

// Positions: the documented order of hook opportunities.
//
// A walk is a sequence of transition occurrences k = 0,1,2,... Occurrence k of
// event E from state S to state D offers, in this order, the moments
//
//	0 before_E   1 leave_S   2 (the task transition, "tasks_E")   3 enter_D   4 after_E
//
// and inside a moment the integer weights in ascending order
// (docs/handbook/configuration.md "State machine callbacks moments").
// A teardown (Manager.TeardownEnvironment) is modelled as an occurrence with
// event DESTROY whose only hook moment is 1 leave_S.

import (
	"fmt"
	"strings"
)

const (
	MBefore = 0
	MLeave  = 1
	MBody   = 2
	MEnter  = 3
	MAfter  = 4

	WInfLo = -1 << 30 // "start of the moment"
	WInfHi = 1 << 30  // "end of the moment"
)

// Pos is a point of a walk.
type Pos struct {
	K int `json:"k"`
	M int `json:"m"`
	W int `json:"w"`
}

func (p Pos) Less(q Pos) bool {
	if p.K != q.K {
		return p.K < q.K
	}
	if p.M != q.M {
		return p.M < q.M
	}
	return p.W < q.W
}

func (p Pos) String() string {
	w := fmt.Sprintf("%+d", p.W)
	if p.W == WInfLo {
		w = "start"
	} else if p.W == WInfHi {
		w = "end"
	}
	return fmt.Sprintf("(k%d,m%d,%s)", p.K, p.M, w)
}

// Occurrence is one attempted transition (or teardown) of a walk.
type Occurrence struct {
	K     int    `json:"k"`
	Event string `json:"event"`
	Src   string `json:"src"`
	Dst   string `json:"dst"` // destination of the event in the state graph
}

// FSM edges of the environment state machine (environment.go).
var edges = map[string]map[string]string{
	"DEPLOY":         {"STANDBY": "DEPLOYED"},
	"CONFIGURE":      {"DEPLOYED": "CONFIGURED"},
	"RESET":          {"CONFIGURED": "DEPLOYED"},
	"START_ACTIVITY": {"CONFIGURED": "RUNNING"},
	"STOP_ACTIVITY":  {"RUNNING": "CONFIGURED"},
	"EXIT":           {"CONFIGURED": "DONE", "DEPLOYED": "DONE", "STANDBY": "DONE"},
	"GO_ERROR":       {"STANDBY": "ERROR", "CONFIGURED": "ERROR", "DEPLOYED": "ERROR", "RUNNING": "ERROR"},
	"RECOVER":        {"ERROR": "DEPLOYED"},
}

// Destination returns the destination state of event from src ("" if illegal).
func Destination(event, src string) string { return edges[event][src] }

// LegalEvents lists the events of the normal life cycle that are legal in src.
func LegalEvents(src string) []string {
	switch src {
	case "STANDBY":
		return []string{"DEPLOY"}
	case "DEPLOYED":
		return []string{"CONFIGURE"}
	case "CONFIGURED":
		return []string{"START_ACTIVITY", "RESET"}
	case "RUNNING":
		return []string{"STOP_ACTIVITY"}
	}
	return nil
}

// Moments returns the moment names of the occurrence indexed by moment number
// ("" where the occurrence has no hook moment).
func (o Occurrence) Moments() [5]string {
	if o.Event == "DESTROY" {
		return [5]string{"", "leave_" + o.Src, "", "", ""}
	}
	return [5]string{"before_" + o.Event, "leave_" + o.Src, "", "enter_" + o.Dst, "after_" + o.Event}
}

// MomentIndex returns the moment number of a moment name in the occurrence, -1 if absent.
func (o Occurrence) MomentIndex(name string) int {
	for i, n := range o.Moments() {
		if n != "" && n == name {
			return i
		}
	}
	return -1
}

// ParseExpr is the lab's own reading of a trigger / await expression, written
// from the handbook ("syntax ±index ... an expression with no index is assumed to
// be indexed +0", docs/handbook/configuration.md) and NOT shared with the
// repository's callable.ParseTriggerExpression, which is code under test: the
// expression is split at its last '+' or '-', the index is a DECIMAL integer
// with an explicit sign, leading zeros allowed ("+010" is ten, "-050" minus
// fifty, "+08" eight, "-0" zero); no index means +0; an index that is not a
// decimal integer gets the repository's documented fallback +0. A positive
// index without '+' is not an index at all (it would be part of the name).
func ParseExpr(expr string) (string, int) {
	i := strings.LastIndexAny(expr, "+-")
	if i < 0 {
		return expr, 0
	}
	name, digits := expr[:i], expr[i+1:]
	if digits == "" || len(digits) > 15 {
		return name, 0
	}
	n := 0
	for _, ch := range digits {
		if ch < '0' || ch > '9' {
			return name, 0
		}
		n = n*10 + int(ch-'0')
	}
	if expr[i] == '-' {
		n = -n
	}
	return name, n
}

// Expr builds a trigger/await expression.
func Expr(name string, w int) string {
	if w == 0 {
		return name
	}
	return fmt.Sprintf("%s%+d", name, w)
}
