// Package consul is a fake Consul KV HTTP server (GET/PUT/DELETE /v1/kv/…,
// ?cas= ?keys ?recurse ?consistent, ModifyIndex, X-Consul-Index) backed by a
// single linearizable store with a global index. Every request is logged with a
// sequence number; a per-request fault plan can delay, fail or sever requests
// before or after they are applied.
package consul

import (
	"encoding/base64"
	"encoding/json"
	"fmt"
	"io"
	"net"
	"net/http"
	"sort"
	"strconv"
	"strings"
	"sync"
	"time"

	"verif/harness/vlib"
)

type entry struct {
	Value       []byte
	CreateIndex uint64
	ModifyIndex uint64
}

// Fault says what to do with one request.
type Fault struct {
	DelayBefore time.Duration // before the store is touched
	DelayAfter  time.Duration // after apply, before the response is written
	Err500      bool          // answer 500 WITHOUT applying
	SeverBefore bool          // close the connection WITHOUT applying
	SeverAfter  bool          // apply, then close the connection without a response
	Gate        chan struct{} // if set: wait on it before applying
	GateAfter   chan struct{} // if set: wait on it after applying, before responding
}

// Req is one logged request.
type Req struct {
	Seq      int64  `json:"seq"`     // when it arrived
	SeqApply int64  `json:"seq_app"` // when it was applied to the store (0 = never)
	SeqDone  int64  `json:"seq_done"`
	Method   string `json:"method"`
	Key      string `json:"key"`
	Query    string `json:"query"`
	Body     string `json:"body,omitempty"`
	Cas      int64  `json:"cas"` // -1 = none
	Applied  bool   `json:"applied"`
	Result   string `json:"result"` // "true"/"false"/status
	Index    uint64 `json:"index"`  // ModifyIndex read or written
	Value    string `json:"value,omitempty"`
	Client   string `json:"client,omitempty"`
	Fault    string `json:"fault,omitempty"`
}

type Server struct {
	mu    sync.Mutex
	data  map[string]*entry
	index uint64
	log   []*Req

	// Plan is consulted (under no lock) for each request; may be nil.
	Plan func(r *Req) Fault

	ln   net.Listener
	srv  *http.Server
	Addr string
}

func New() *Server {
	return &Server{data: map[string]*entry{}, index: 10}
}

// Start listens on an ephemeral loopback port.
func (s *Server) Start() error {
	ln, err := net.Listen("tcp", "127.0.0.1:0")
	if err != nil {
		return err
	}
	s.ln = ln
	s.Addr = ln.Addr().String()
	mux := http.NewServeMux()
	mux.HandleFunc("/v1/kv/", s.handleKV)
	mux.HandleFunc("/", func(w http.ResponseWriter, r *http.Request) {
		w.Header().Set("X-Consul-Index", "1")
		w.WriteHeader(404)
	})
	s.srv = &http.Server{Handler: mux}
	go s.srv.Serve(ln)
	return nil
}

func (s *Server) Stop() {
	if s.srv != nil {
		s.srv.Close()
	}
}

// Put sets a key directly (test set-up; not logged).
func (s *Server) Put(key, value string) {
	s.mu.Lock()
	defer s.mu.Unlock()
	s.index++
	e := s.data[key]
	if e == nil {
		e = &entry{CreateIndex: s.index}
		s.data[key] = e
	}
	e.Value = []byte(value)
	e.ModifyIndex = s.index
}

func (s *Server) Delete(key string) {
	s.mu.Lock()
	defer s.mu.Unlock()
	s.index++
	delete(s.data, key)
}

func (s *Server) Get(key string) (string, bool) {
	s.mu.Lock()
	defer s.mu.Unlock()
	e := s.data[key]
	if e == nil {
		return "", false
	}
	return string(e.Value), true
}

// Keys returns all keys with the prefix.
func (s *Server) Keys(prefix string) []string {
	s.mu.Lock()
	defer s.mu.Unlock()
	var ks []string
	for k := range s.data {
		if strings.HasPrefix(k, prefix) {
			ks = append(ks, k)
		}
	}
	sort.Strings(ks)
	return ks
}

// Log returns a copy of the request log.
func (s *Server) Log() []Req {
	s.mu.Lock()
	defer s.mu.Unlock()
	out := make([]Req, len(s.log))
	for i, r := range s.log {
		out[i] = *r
	}
	return out
}

func (s *Server) ResetLog() {
	s.mu.Lock()
	s.log = nil
	s.mu.Unlock()
}

type kvJSON struct {
	LockIndex   uint64
	Key         string
	Flags       uint64
	Value       string
	CreateIndex uint64
	ModifyIndex uint64
}

func sever(w http.ResponseWriter) {
	if hj, ok := w.(http.Hijacker); ok {
		if c, _, err := hj.Hijack(); err == nil {
			c.Close()
			return
		}
	}
	panic(http.ErrAbortHandler)
}

func (s *Server) handleKV(w http.ResponseWriter, r *http.Request) {
	key := strings.TrimPrefix(r.URL.Path, "/v1/kv/")
	q := r.URL.Query()
	body, _ := io.ReadAll(r.Body)
	req := &Req{Seq: vlib.Seq(), Method: r.Method, Key: key, Query: r.URL.RawQuery, Cas: -1, Client: r.Header.Get("X-Verif-Client")}
	if r.Method == "PUT" {
		req.Body = string(body)
	}
	if c := q.Get("cas"); c != "" {
		n, _ := strconv.ParseInt(c, 10, 64)
		req.Cas = n
	}
	s.mu.Lock()
	s.log = append(s.log, req)
	plan := s.Plan
	s.mu.Unlock()
	var f Fault
	if plan != nil {
		f = plan(req)
	}
	if f.DelayBefore > 0 {
		time.Sleep(f.DelayBefore)
	}
	if f.Gate != nil {
		<-f.Gate
	}
	if f.Err500 {
		s.finish(req, "500", "err500")
		w.Header().Set("X-Consul-Index", "1")
		http.Error(w, "injected failure", 500)
		return
	}
	if f.SeverBefore {
		s.finish(req, "severed", "sever-before")
		sever(w)
		return
	}

	// ---- apply atomically ----
	var status = 200
	var out []byte
	s.mu.Lock()
	req.SeqApply = vlib.Seq()
	hdrIndex := s.index
	switch r.Method {
	case "GET":
		if _, ok := q["keys"]; ok {
			sep := q.Get("separator")
			set := map[string]struct{}{}
			for k := range s.data {
				if !strings.HasPrefix(k, key) {
					continue
				}
				if sep != "" {
					rest := k[len(key):]
					if i := strings.Index(rest, sep); i >= 0 {
						k = key + rest[:i+len(sep)]
					}
				}
				set[k] = struct{}{}
			}
			ks := make([]string, 0, len(set))
			for k := range set {
				ks = append(ks, k)
			}
			sort.Strings(ks)
			if len(ks) == 0 {
				status = 404
			} else {
				out, _ = json.Marshal(ks)
			}
		} else if _, ok := q["recurse"]; ok {
			var ks []string
			for k := range s.data {
				if strings.HasPrefix(k, key) {
					ks = append(ks, k)
				}
			}
			sort.Strings(ks)
			if len(ks) == 0 {
				status = 404
			} else {
				arr := make([]kvJSON, 0, len(ks))
				for _, k := range ks {
					e := s.data[k]
					arr = append(arr, kvJSON{Key: k, Value: base64.StdEncoding.EncodeToString(e.Value), CreateIndex: e.CreateIndex, ModifyIndex: e.ModifyIndex})
				}
				out, _ = json.Marshal(arr)
			}
		} else {
			e := s.data[key]
			if e == nil {
				status = 404
			} else {
				req.Index = e.ModifyIndex
				req.Value = string(e.Value)
				out, _ = json.Marshal([]kvJSON{{Key: key, Value: base64.StdEncoding.EncodeToString(e.Value), CreateIndex: e.CreateIndex, ModifyIndex: e.ModifyIndex}})
			}
		}
		req.Applied = true
		req.Result = strconv.Itoa(status)
	case "PUT":
		okw := true
		e := s.data[key]
		if req.Cas >= 0 {
			if req.Cas == 0 {
				okw = e == nil
			} else {
				okw = e != nil && e.ModifyIndex == uint64(req.Cas)
			}
		}
		if okw {
			s.index++
			if e == nil {
				e = &entry{CreateIndex: s.index}
				s.data[key] = e
			}
			e.Value = append([]byte(nil), body...)
			e.ModifyIndex = s.index
			req.Index = s.index
			req.Value = string(body)
		}
		hdrIndex = s.index
		req.Applied = true
		req.Result = strconv.FormatBool(okw)
		out = []byte(req.Result)
	case "DELETE":
		s.index++
		if _, ok := q["recurse"]; ok {
			for k := range s.data {
				if strings.HasPrefix(k, key) {
					delete(s.data, k)
				}
			}
		} else {
			delete(s.data, key)
		}
		req.Applied = true
		req.Result = "true"
		out = []byte("true")
	default:
		status = 405
	}
	s.mu.Unlock()

	if f.DelayAfter > 0 {
		time.Sleep(f.DelayAfter)
	}
	if f.GateAfter != nil {
		<-f.GateAfter
	}
	if f.SeverAfter {
		s.finish(req, req.Result, "sever-after")
		sever(w)
		return
	}
	s.finish(req, req.Result, "")
	w.Header().Set("Content-Type", "application/json")
	w.Header().Set("X-Consul-Index", fmt.Sprint(hdrIndex))
	w.Header().Set("X-Consul-KnownLeader", "true")
	w.Header().Set("X-Consul-LastContact", "0")
	w.WriteHeader(status)
	w.Write(out)
}

func (s *Server) finish(req *Req, result, fault string) {
	s.mu.Lock()
	req.SeqDone = vlib.Seq()
	req.Result = result
	req.Fault = fault
	s.mu.Unlock()
}
