// Package simmesos is a fake Mesos master speaking the v1 HTTP scheduler API
// (protobuf + RecordIO) together with scripted fake executors. Every call and
// every event is logged with a process-wide sequence number.
package simmesos

import (
	"encoding/json"
	"fmt"
	"io"
	"net"
	"net/http"
	"sort"
	"strconv"
	"strings"
	"sync"
	"time"

	"github.com/AliceO2Group/Control/common"
	mesos "github.com/mesos/mesos-go/api/v1/lib"
	"github.com/mesos/mesos-go/api/v1/lib/scheduler"

	"verif/harness/vlib"
)

// Agent describes one simulated agent; an offer is built from it on REVIVE.
type Agent struct {
	ID          string
	Hostname    string
	Attributes  map[string]string
	CPU, Mem    float64
	Ports       [][2]uint64
	ExecutorIDs []string // executors advertised in offers
	Down        bool
}

// Rec is one log record.
type Rec struct {
	Seq    int64                  `json:"seq"`
	Life   int                    `json:"life"` // subscription counter at that moment
	Kind   string                 `json:"kind"` // call | event | exec | note
	Type   string                 `json:"type"`
	TaskID string                 `json:"task,omitempty"`
	Agent  string                 `json:"agent,omitempty"`
	Status int                    `json:"http,omitempty"`
	F      map[string]interface{} `json:"f,omitempty"`
}

// LaunchedTask is the master's view of one task.
type LaunchedTask struct {
	ID          string
	Name        string
	AgentID     string
	Hostname    string
	ExecutorID  string
	EnvID       string
	OfferID     string
	Life        int
	CPU, Mem    float64
	Ports       []uint64
	Cmd         map[string]interface{} // decoded TaskInfo.Data
	ClassName   string
	RolePath    string // from env var VERIF_ROLE if present in the command
	Mode        string // control mode string from the command
	ControlPort uint64
	State       string // executor-side O² state: STANDBY CONFIGURED RUNNING ERROR DONE
	Mesos       string // TASK_STAGING TASK_RUNNING TASK_KILLED ...
	Terminal    bool
	KillAsked   int
	Commands    []CommandSeen
	SeqLaunch   int64

	// the terminal status update of this task as long as the framework has not acknowledged it: like
	// the agent's status update manager, the master sends it again (after every re-subscription)
	pendingTerm *scheduler.Event
}

type CommandSeen struct {
	Seq         int64
	Name        string
	ID          string
	Event       string
	Source      string
	Destination string
	Arguments   map[string]string
	EnvID       string
	Behaviour   string
}

// Reply is what a fake executor does with one command.
type Reply struct {
	Kind       string        // ok | error-stay | error-to-error | silent | late | twice | die | ok-wrong-state
	Delay      time.Duration // before replying
	DieState   string        // mesos state for "die" (TASK_FAILED ...)
	Gate       chan struct{} // if set, wait on it before acting
	ErrorText  string
	ForceState string
	// AfterDeath: the reply is sent even if the task has turned terminal meanwhile (the executor
	// answered, then the process died; framework messages and status updates travel separately, so
	// the answer may reach the scheduler after the terminal update)
	AfterDeath bool
}

// CallFault says how the master treats one scheduler call.
type CallFault struct {
	HTTPStatus int // !=0: answer with this status, do not process
	Delay      time.Duration
	Gate       chan struct{}
}

// LaunchPlan says what happens to a launched task.
type LaunchPlan struct {
	Kind  string // running | failed | lost | never
	Delay time.Duration
}

type Master struct {
	mu        sync.Mutex
	agents    []*Agent
	fid       string
	life      int // number of SUBSCRIBE calls seen
	streamID  string
	events    chan *scheduler.Event // to current subscriber
	streamGen int
	tasks     map[string]*LaunchedTask
	order     []string
	offers    map[string]*outOffer
	offerSeq  int
	log       []Rec
	subFIDs   []string // framework id presented at each SUBSCRIBE ("" = none)

	// OnCall may inject a fault for a call; called without the lock held.
	OnCall func(c *scheduler.Call, m *Master) *CallFault
	// OnLaunch decides a launched task's fate (default running).
	OnLaunch func(t *LaunchedTask) LaunchPlan
	// OnCommand decides a fake executor's reply (default ok).
	OnCommand func(t *LaunchedTask, cmd *CommandSeen) Reply
	// OnKill decides what a KILL does: "killed" (default), "ignore", "failed"
	OnKill func(t *LaunchedTask) string
	// AutoOffers: send offers on REVIVE (default true)
	AutoOffers bool
	// OfferFilter lets a scenario restrict which agents are offered.
	OfferFilter func(a *Agent) bool
	// OfferDelay > 0: the offers answering a REVIVE are sent that much later, from another goroutine
	// (a real master offers at its next allocation cycle, not inside the REVIVE call). 0 = at once.
	OfferDelay time.Duration

	ln   net.Listener
	srv  *http.Server
	Addr string
	stop chan struct{}
}

type outOffer struct {
	ID       string
	Agent    *Agent
	Seq      int64
	Outcome  string // "", accepted, declined, rescinded
	CPU, Mem float64
	Ports    [][2]uint64
}

func NewMaster(agents []*Agent) *Master {
	return &Master{agents: agents, tasks: map[string]*LaunchedTask{}, offers: map[string]*outOffer{}, AutoOffers: true, stop: make(chan struct{})}
}

func (m *Master) Start() error {
	ln, err := net.Listen("tcp", "127.0.0.1:0")
	if err != nil {
		return err
	}
	m.ln = ln
	m.Addr = ln.Addr().String()
	mux := http.NewServeMux()
	mux.HandleFunc("/api/v1/scheduler", m.handle)
	m.srv = &http.Server{Handler: mux}
	go m.srv.Serve(ln)
	return nil
}

func (m *Master) URL() string { return "http://" + m.Addr + "/api/v1/scheduler" }

func (m *Master) Stop() {
	select {
	case <-m.stop:
	default:
		close(m.stop)
	}
	if m.srv != nil {
		m.srv.Close()
	}
}

func (m *Master) rec(kind, typ, task, agent string, status int, f map[string]interface{}) int64 {
	// caller holds m.mu
	s := vlib.Seq()
	m.log = append(m.log, Rec{Seq: s, Life: m.life, Kind: kind, Type: typ, TaskID: task, Agent: agent, Status: status, F: f})
	return s
}

// Note adds a free-form record (scenario markers).
func (m *Master) Note(typ string, f map[string]interface{}) int64 {
	m.mu.Lock()
	defer m.mu.Unlock()
	return m.rec("note", typ, "", "", 0, f)
}

func (m *Master) Log() []Rec {
	m.mu.Lock()
	defer m.mu.Unlock()
	return append([]Rec(nil), m.log...)
}

func (m *Master) LogLen() int {
	m.mu.Lock()
	defer m.mu.Unlock()
	return len(m.log)
}

func (m *Master) Tasks() []LaunchedTask {
	m.mu.Lock()
	defer m.mu.Unlock()
	out := make([]LaunchedTask, 0, len(m.order))
	for _, id := range m.order {
		t := *m.tasks[id]
		t.Commands = append([]CommandSeen(nil), t.Commands...)
		out = append(out, t)
	}
	return out
}

func (m *Master) Task(id string) *LaunchedTask {
	m.mu.Lock()
	defer m.mu.Unlock()
	if t := m.tasks[id]; t != nil {
		c := *t
		c.Commands = append([]CommandSeen(nil), t.Commands...)
		return &c
	}
	return nil
}

func (m *Master) FrameworkID() string {
	m.mu.Lock()
	defer m.mu.Unlock()
	return m.fid
}

// SubscribeFIDs returns the framework id presented by each SUBSCRIBE call.
func (m *Master) SubscribeFIDs() []string {
	m.mu.Lock()
	defer m.mu.Unlock()
	return append([]string(nil), m.subFIDs...)
}

func (m *Master) Life() int {
	m.mu.Lock()
	defer m.mu.Unlock()
	return m.life
}

func (m *Master) Subscribed() bool {
	m.mu.Lock()
	defer m.mu.Unlock()
	return m.events != nil
}

// DropStream closes the current subscription stream (connection loss).
func (m *Master) DropStream() {
	m.mu.Lock()
	defer m.mu.Unlock()
	if m.events != nil {
		m.rec("note", "DROP_STREAM", "", "", 0, nil)
		close(m.events)
		m.events = nil
		m.streamGen++
	}
}

// LoseWhileDisconnected drops the stream and, in the same instant, makes the task's agent unreachable:
// the master-generated TASK_LOST finds no subscription and is never sent again (only agents retry
// updates). The task stays known to the master as lost, so the implicit reconciliation of the next
// subscription answers TASK_LOST with REASON_RECONCILIATION - the only report the framework ever gets.
func (m *Master) LoseWhileDisconnected(id string) {
	m.mu.Lock()
	defer m.mu.Unlock()
	t := m.tasks[id]
	if t == nil {
		return
	}
	if m.events != nil {
		m.rec("note", "DROP_STREAM", "", "", 0, nil)
		close(m.events)
		m.events = nil
		m.streamGen++
	}
	t.Mesos = "TASK_LOST"
	m.rec("note", "LOST_WHILE_DISCONNECTED", t.ID, t.AgentID, 0, nil)
}

func (m *Master) send(ev *scheduler.Event) bool {
	// caller holds m.mu
	if m.events == nil {
		return false
	}
	select {
	case m.events <- ev:
		return true
	default:
		return false
	}
}

func (m *Master) handle(w http.ResponseWriter, r *http.Request) {
	body, err := io.ReadAll(r.Body)
	if err != nil {
		http.Error(w, "read", 400)
		return
	}
	var call scheduler.Call
	if err := call.Unmarshal(body); err != nil {
		http.Error(w, "bad protobuf: "+err.Error(), 400)
		return
	}
	var fault *CallFault
	if m.OnCall != nil {
		fault = m.OnCall(&call, m)
	}
	if fault != nil {
		if fault.Delay > 0 {
			time.Sleep(fault.Delay)
		}
		if fault.Gate != nil {
			<-fault.Gate
		}
		if fault.HTTPStatus != 0 {
			m.mu.Lock()
			m.recCall(&call, fault.HTTPStatus)
			m.mu.Unlock()
			http.Error(w, "injected refusal", fault.HTTPStatus)
			return
		}
	}
	if call.GetType() == scheduler.Call_SUBSCRIBE {
		m.subscribe(w, r, &call)
		return
	}
	m.mu.Lock()
	if sid := r.Header.Get("Mesos-Stream-Id"); sid != "" && sid != m.streamID {
		m.recCall(&call, 400)
		m.mu.Unlock()
		http.Error(w, "stale stream id", 400)
		return
	}
	m.recCall(&call, 202)
	m.process(&call)
	m.mu.Unlock()
	w.WriteHeader(202)
}

func resScalar(rs []mesos.Resource, name string) float64 {
	s := 0.0
	for _, r := range rs {
		if r.GetName() == name && r.GetScalar() != nil {
			s += r.GetScalar().GetValue()
		}
	}
	return s
}

func resPorts(rs []mesos.Resource) []uint64 {
	var ps []uint64
	for _, r := range rs {
		if r.GetName() == "ports" && r.GetRanges() != nil {
			for _, rg := range r.GetRanges().GetRange() {
				for p := rg.GetBegin(); p <= rg.GetEnd() && len(ps) < 100000; p++ {
					ps = append(ps, p)
				}
			}
		}
	}
	return ps
}

func (m *Master) recCall(c *scheduler.Call, status int) {
	f := map[string]interface{}{}
	task, agent := "", ""
	switch c.GetType() {
	case scheduler.Call_SUBSCRIBE:
		if c.GetSubscribe() != nil && c.GetSubscribe().GetFrameworkInfo() != nil && c.GetSubscribe().GetFrameworkInfo().ID != nil {
			f["fid_info"] = c.GetSubscribe().GetFrameworkInfo().GetID().GetValue()
		}
		if c.FrameworkID != nil {
			f["fid"] = c.GetFrameworkID().GetValue()
		}
	case scheduler.Call_ACCEPT:
		a := c.GetAccept()
		var oids []string
		for _, o := range a.GetOfferIDs() {
			oids = append(oids, o.GetValue())
		}
		f["offers"] = oids
		var tl []map[string]interface{}
		for _, op := range a.GetOperations() {
			if op.GetLaunch() == nil {
				continue
			}
			for _, ti := range op.GetLaunch().GetTaskInfos() {
				tl = append(tl, map[string]interface{}{
					"task": ti.GetTaskID().Value, "name": ti.GetName(), "agent": ti.GetAgentID().Value,
					"executor": ti.GetExecutor().GetExecutorID().Value,
					"cpus":     resScalar(ti.GetResources(), "cpus"), "mem": resScalar(ti.GetResources(), "mem"),
					"ports": resPorts(ti.GetResources()),
				})
			}
		}
		f["launch"] = tl
	case scheduler.Call_DECLINE:
		var oids []string
		for _, o := range c.GetDecline().GetOfferIDs() {
			oids = append(oids, o.GetValue())
		}
		f["offers"] = oids
	case scheduler.Call_KILL:
		task = c.GetKill().GetTaskID().Value
		if c.GetKill().AgentID != nil {
			agent = c.GetKill().GetAgentID().Value
		}
		if t := m.tasks[task]; t != nil {
			f["env"] = t.EnvID
			f["task_mesos"] = t.Mesos
		}
	case scheduler.Call_MESSAGE:
		agent = c.GetMessage().GetAgentID().Value
		f["executor"] = c.GetMessage().GetExecutorID().Value
		var cmd map[string]interface{}
		if json.Unmarshal(c.GetMessage().GetData(), &cmd) == nil {
			f["name"] = cmd["name"]
			f["id"] = cmd["id"]
			f["event"] = cmd["event"]
			f["env"] = cmd["environmentId"]
			if tl, ok := cmd["targetList"].([]interface{}); ok && len(tl) > 0 {
				if t0, ok := tl[0].(map[string]interface{}); ok {
					if tid, ok := t0["TaskId"].(map[string]interface{}); ok {
						task, _ = tid["value"].(string)
					}
				}
			}
		}
	case scheduler.Call_ACKNOWLEDGE:
		task = c.GetAcknowledge().GetTaskID().Value
	case scheduler.Call_RECONCILE:
		f["explicit"] = len(c.GetReconcile().GetTasks())
	}
	m.rec("call", c.GetType().String(), task, agent, status, f)
}

func (m *Master) subscribe(w http.ResponseWriter, r *http.Request, call *scheduler.Call) {
	fl, ok := w.(http.Flusher)
	if !ok {
		http.Error(w, "no flusher", 500)
		return
	}
	m.mu.Lock()
	presented := ""
	if fi := call.GetSubscribe().GetFrameworkInfo(); fi != nil && fi.ID != nil {
		presented = fi.GetID().GetValue()
	}
	if presented == "" && call.FrameworkID != nil {
		presented = call.GetFrameworkID().GetValue()
	}
	m.life++
	m.subFIDs = append(m.subFIDs, presented)
	m.recCall(call, 200)
	if presented != "" {
		m.fid = presented
	} else {
		m.fid = fmt.Sprintf("sim-framework-%04d", m.life)
	}
	if m.events != nil {
		close(m.events)
	}
	ch := make(chan *scheduler.Event, 4096)
	m.events = ch
	m.streamGen++
	m.streamID = fmt.Sprintf("stream-%d", m.streamGen)
	sid := m.streamID
	fid := m.fid
	// a new subscription invalidates outstanding offers
	for _, o := range m.offers {
		if o.Outcome == "" {
			o.Outcome = "rescinded"
		}
	}
	m.mu.Unlock()

	w.Header().Set("Content-Type", "application/x-protobuf")
	w.Header().Set("Mesos-Stream-Id", sid)
	w.WriteHeader(200)
	fl.Flush()
	hb := 15.0
	sub := &scheduler.Event{Type: scheduler.Event_SUBSCRIBED, Subscribed: &scheduler.Event_Subscribed{
		FrameworkID: &mesos.FrameworkID{Value: fid}, HeartbeatIntervalSeconds: &hb}}
	write := func(ev *scheduler.Event) error {
		b, err := ev.Marshal()
		if err != nil {
			return err
		}
		if _, err := w.Write([]byte(strconv.Itoa(len(b)) + "\n")); err != nil {
			return err
		}
		if _, err := w.Write(b); err != nil {
			return err
		}
		fl.Flush()
		return nil
	}
	m.mu.Lock()
	m.rec("event", "SUBSCRIBED", "", "", 0, map[string]interface{}{"fid": fid})
	m.mu.Unlock()
	if write(sub) != nil {
		return
	}
	m.mu.Lock()
	if m.events == ch {
		m.retryUnackedLocked()
	}
	m.mu.Unlock()
	tick := time.NewTicker(5 * time.Second)
	defer tick.Stop()
	for {
		select {
		case ev, ok := <-ch:
			if !ok {
				// stream dropped by the scenario: sever the connection
				if hj, ok := w.(http.Hijacker); ok {
					if c, _, err := hj.Hijack(); err == nil {
						c.Close()
					}
				}
				return
			}
			if write(ev) != nil {
				m.streamGone(ch)
				return
			}
		case <-tick.C:
			if write(&scheduler.Event{Type: scheduler.Event_HEARTBEAT}) != nil {
				m.streamGone(ch)
				return
			}
		case <-r.Context().Done():
			m.streamGone(ch)
			return
		case <-m.stop:
			return
		}
	}
}

func (m *Master) streamGone(ch chan *scheduler.Event) {
	m.mu.Lock()
	if m.events == ch {
		m.events = nil
		m.rec("note", "STREAM_CLOSED_BY_PEER", "", "", 0, nil)
	}
	m.mu.Unlock()
}

// ---- call processing (m.mu held) ----

func (m *Master) process(c *scheduler.Call) {
	switch c.GetType() {
	case scheduler.Call_REVIVE:
		if m.AutoOffers && m.OfferDelay > 0 {
			d := m.OfferDelay
			go func() {
				time.Sleep(d)
				m.mu.Lock()
				defer m.mu.Unlock()
				m.sendOffersLocked()
			}()
		} else if m.AutoOffers {
			m.sendOffersLocked()
		}
	case scheduler.Call_ACCEPT:
		m.accept(c.GetAccept())
	case scheduler.Call_DECLINE:
		for _, o := range c.GetDecline().GetOfferIDs() {
			if oo := m.offers[o.GetValue()]; oo != nil && oo.Outcome == "" {
				oo.Outcome = "declined"
			}
		}
	case scheduler.Call_KILL:
		m.kill(c.GetKill().GetTaskID().Value)
	case scheduler.Call_MESSAGE:
		m.message(c.GetMessage())
	case scheduler.Call_RECONCILE:
		m.reconcile(c.GetReconcile())
	case scheduler.Call_ACKNOWLEDGE:
		if t := m.tasks[c.GetAcknowledge().GetTaskID().Value]; t != nil && t.pendingTerm != nil &&
			string(t.pendingTerm.Update.Status.UUID) == string(c.GetAcknowledge().GetUUID()) {
			t.pendingTerm = nil
		}
	case scheduler.Call_SUPPRESS, scheduler.Call_TEARDOWN:
	}
}

// SendOffers makes one offer per up agent (minus resources of running tasks).
func (m *Master) SendOffers() {
	m.mu.Lock()
	defer m.mu.Unlock()
	m.sendOffersLocked()
}

func (m *Master) sendOffersLocked() {
	var offers []mesos.Offer
	for _, a := range m.agents {
		if a.Down || (m.OfferFilter != nil && !m.OfferFilter(a)) {
			continue
		}
		// an agent with an outstanding offer is not offered again
		outstanding := false
		for _, o := range m.offers {
			if o.Agent == a && o.Outcome == "" {
				outstanding = true
			}
		}
		if outstanding {
			continue
		}
		cpu, mem := a.CPU, a.Mem
		used := map[uint64]bool{}
		for _, t := range m.tasks {
			if t.AgentID == a.ID && !t.Terminal {
				cpu -= t.CPU
				mem -= t.Mem
				for _, p := range t.Ports {
					used[p] = true
				}
			}
		}
		var ranges []mesos.Value_Range
		var prs [][2]uint64
		for _, pr := range a.Ports {
			start := pr[0]
			for p := pr[0]; p <= pr[1]; p++ {
				if used[p] {
					if p > start {
						ranges = append(ranges, mesos.Value_Range{Begin: start, End: p - 1})
						prs = append(prs, [2]uint64{start, p - 1})
					}
					start = p + 1
				}
			}
			if start <= pr[1] {
				ranges = append(ranges, mesos.Value_Range{Begin: start, End: pr[1]})
				prs = append(prs, [2]uint64{start, pr[1]})
			}
		}
		m.offerSeq++
		oid := fmt.Sprintf("offer-%05d", m.offerSeq)
		star := "*"
		res := []mesos.Resource{
			{Name: "cpus", Type: mesos.SCALAR.Enum(), Scalar: &mesos.Value_Scalar{Value: cpu}, Role: &star},
			{Name: "mem", Type: mesos.SCALAR.Enum(), Scalar: &mesos.Value_Scalar{Value: mem}, Role: &star},
		}
		if len(ranges) > 0 {
			res = append(res, mesos.Resource{Name: "ports", Type: mesos.RANGES.Enum(), Ranges: &mesos.Value_Ranges{Range: ranges}, Role: &star})
		}
		var attrs []mesos.Attribute
		var names []string
		for k := range a.Attributes {
			names = append(names, k)
		}
		sort.Strings(names)
		for _, k := range names {
			attrs = append(attrs, mesos.Attribute{Name: k, Type: mesos.TEXT, Text: &mesos.Value_Text{Value: a.Attributes[k]}})
		}
		var eids []mesos.ExecutorID
		for _, e := range a.ExecutorIDs {
			eids = append(eids, mesos.ExecutorID{Value: e})
		}
		off := mesos.Offer{ID: mesos.OfferID{Value: oid}, FrameworkID: mesos.FrameworkID{Value: m.fid}, AgentID: mesos.AgentID{Value: a.ID},
			Hostname: a.Hostname, Resources: res, Attributes: attrs, ExecutorIDs: eids}
		offers = append(offers, off)
		seq := m.rec("event", "OFFER", "", a.ID, 0, map[string]interface{}{"offer": oid, "host": a.Hostname, "cpus": cpu, "mem": mem, "ports": prs, "attrs": a.Attributes, "executors": a.ExecutorIDs})
		m.offers[oid] = &outOffer{ID: oid, Agent: a, Seq: seq, CPU: cpu, Mem: mem, Ports: prs}
	}
	if len(offers) == 0 {
		return
	}
	m.send(&scheduler.Event{Type: scheduler.Event_OFFERS, Offers: &scheduler.Event_Offers{Offers: offers}})
}

// Offers returns a snapshot of all offers ever made and their outcome.
type OfferView struct {
	ID, AgentID, Hostname, Outcome string
	Seq                            int64
	CPU, Mem                       float64
	Ports                          [][2]uint64
	Attributes                     map[string]string
}

func (m *Master) OffersView() []OfferView {
	m.mu.Lock()
	defer m.mu.Unlock()
	var out []OfferView
	for _, o := range m.offers {
		out = append(out, OfferView{ID: o.ID, AgentID: o.Agent.ID, Hostname: o.Agent.Hostname, Outcome: o.Outcome, Seq: o.Seq, CPU: o.CPU, Mem: o.Mem, Ports: o.Ports, Attributes: o.Agent.Attributes})
	}
	sort.Slice(out, func(i, j int) bool { return out[i].Seq < out[j].Seq })
	return out
}

func (m *Master) agentByID(id string) *Agent {
	for _, a := range m.agents {
		if a.ID == id {
			return a
		}
	}
	return nil
}

func (m *Master) accept(a *scheduler.Call_Accept) {
	for _, o := range a.GetOfferIDs() {
		if oo := m.offers[o.GetValue()]; oo != nil && oo.Outcome == "" {
			oo.Outcome = "accepted"
		}
	}
	oid := ""
	if len(a.GetOfferIDs()) > 0 {
		oid = a.GetOfferIDs()[0].GetValue()
	}
	for _, op := range a.GetOperations() {
		if op.GetLaunch() == nil {
			continue
		}
		for _, ti := range op.GetLaunch().GetTaskInfos() {
			t := &LaunchedTask{ID: ti.GetTaskID().Value, Name: ti.GetName(), AgentID: ti.GetAgentID().Value,
				ExecutorID: ti.GetExecutor().GetExecutorID().Value, OfferID: oid, Life: m.life,
				CPU: resScalar(ti.GetResources(), "cpus"), Mem: resScalar(ti.GetResources(), "mem"), Ports: resPorts(ti.GetResources()),
				State: "STANDBY", Mesos: "TASK_STAGING"}
			if ag := m.agentByID(t.AgentID); ag != nil {
				t.Hostname = ag.Hostname
			}
			if ti.GetLabels() != nil {
				for _, l := range ti.GetLabels().GetLabels() {
					if l.GetKey() == "environmentId" {
						t.EnvID = l.GetValue()
					}
				}
			}
			var cmd map[string]interface{}
			if json.Unmarshal(ti.GetData(), &cmd) == nil {
				t.Cmd = cmd
				if envs, ok := cmd["env"].([]interface{}); ok {
					for _, e := range envs {
						if s, ok := e.(string); ok && strings.HasPrefix(s, "VERIF_ROLE=") {
							t.RolePath = strings.TrimPrefix(s, "VERIF_ROLE=")
						}
					}
				}
				var tci common.TaskCommandInfo
				if json.Unmarshal(ti.GetData(), &tci) == nil {
					t.Mode = tci.ControlMode.String()
					t.ControlPort = tci.ControlPort
				}
			}
			if i := strings.Index(t.Name, "#"); i > 0 {
				t.ClassName = t.Name[:i]
			} else {
				t.ClassName = t.Name
			}
			t.SeqLaunch = m.rec("exec", "LAUNCH", t.ID, t.AgentID, 0, map[string]interface{}{"env": t.EnvID, "name": t.Name, "role": t.RolePath, "mode": t.Mode, "ports": t.Ports})
			m.tasks[t.ID] = t
			m.order = append(m.order, t.ID)
			plan := LaunchPlan{Kind: "running"}
			if m.OnLaunch != nil {
				plan = m.OnLaunch(t)
			}
			go m.runLaunch(t.ID, plan)
		}
	}
}

func (m *Master) runLaunch(id string, plan LaunchPlan) {
	if plan.Delay > 0 {
		time.Sleep(plan.Delay)
	}
	m.mu.Lock()
	defer m.mu.Unlock()
	t := m.tasks[id]
	if t == nil || t.Terminal {
		return
	}
	switch plan.Kind {
	case "running", "":
		m.statusLocked(t, "TASK_RUNNING", "", "")
	case "failed":
		m.statusLocked(t, "TASK_FAILED", "", "launch failed (scripted)")
	case "lost":
		m.statusLocked(t, "TASK_LOST", "", "lost (scripted)")
	case "never":
	}
}

var terminalStates = map[string]bool{"TASK_FINISHED": true, "TASK_FAILED": true, "TASK_KILLED": true, "TASK_LOST": true, "TASK_ERROR": true, "TASK_DROPPED": true, "TASK_GONE": true}

func (m *Master) statusLocked(t *LaunchedTask, state, reason, msg string) {
	if t.Terminal && reason == "" {
		return
	}
	st, ok := mesos.TaskState_value[state]
	if !ok {
		return
	}
	if reason == "" {
		t.Mesos = state
		if terminalStates[state] {
			t.Terminal = true
			if state == "TASK_FINISHED" {
				t.State = "DONE"
			}
		}
	}
	ts := mesos.TaskState(st)
	now := float64(time.Now().UnixNano()) / 1e9
	status := mesos.TaskStatus{TaskID: mesos.TaskID{Value: t.ID}, State: &ts, AgentID: &mesos.AgentID{Value: t.AgentID},
		ExecutorID: &mesos.ExecutorID{Value: t.ExecutorID}, Timestamp: &now, Message: &msg,
		UUID: []byte(fmt.Sprintf("uuid-%d", vlib.Seq())), Source: mesos.SOURCE_EXECUTOR.Enum()}
	if t.EnvID != "" {
		env := t.EnvID
		status.Labels = &mesos.Labels{Labels: []mesos.Label{{Key: "environmentId", Value: &env}}}
	}
	if reason != "" {
		if rv, ok := mesos.TaskStatus_Reason_value[reason]; ok {
			r := mesos.TaskStatus_Reason(rv)
			status.Reason = &r
			status.Source = mesos.SOURCE_MASTER.Enum()
			status.UUID = nil // reconciliation updates carry no uuid
			if reason == "REASON_RECONCILIATION" {
				// master-generated: the master knows the agent, not the executor
				status.ExecutorID = nil
			}
		}
	}
	ev := &scheduler.Event{Type: scheduler.Event_UPDATE, Update: &scheduler.Event_Update{Status: status}}
	if reason == "" && terminalStates[state] && status.UUID != nil {
		t.pendingTerm = ev
	}
	delivered := m.send(ev)
	m.rec("event", "UPDATE", t.ID, t.AgentID, 0, map[string]interface{}{"state": state, "reason": reason, "delivered": delivered, "env": t.EnvID})
}

// retryUnackedLocked sends again every terminal status update the framework has not acknowledged
// (status updates are delivered at least once: the agent retries them until acknowledged).
func (m *Master) retryUnackedLocked() {
	for _, id := range m.order {
		t := m.tasks[id]
		if t == nil || t.pendingTerm == nil {
			continue
		}
		delivered := m.send(t.pendingTerm)
		m.rec("event", "UPDATE", t.ID, t.AgentID, 0, map[string]interface{}{"state": t.Mesos, "reason": "", "retry": true, "delivered": delivered, "env": t.EnvID})
	}
}

// TaskStatus injects a status update for a task (fault injection).
func (m *Master) TaskStatus(id, state, msg string) {
	m.mu.Lock()
	defer m.mu.Unlock()
	if t := m.tasks[id]; t != nil {
		m.statusLocked(t, state, "", msg)
	}
}

// ExecutorFailure emits FAILURE(executor) and marks its tasks terminal at the master.
func (m *Master) ExecutorFailure(agentID, executorID string, alsoStatus bool) {
	m.mu.Lock()
	defer m.mu.Unlock()
	st := int32(1)
	m.rec("event", "FAILURE", "", agentID, 0, map[string]interface{}{"executor": executorID})
	m.send(&scheduler.Event{Type: scheduler.Event_FAILURE, Failure: &scheduler.Event_Failure{AgentID: &mesos.AgentID{Value: agentID}, ExecutorID: &mesos.ExecutorID{Value: executorID}, Status: &st}})
	for _, t := range m.tasks {
		if t.ExecutorID == executorID && t.AgentID == agentID && !t.Terminal {
			if alsoStatus {
				m.statusLocked(t, "TASK_FAILED", "", "executor terminated")
			} else {
				t.Terminal = true
				t.Mesos = "TASK_FAILED"
			}
		}
	}
}

// AgentFailure emits FAILURE(agent) and marks its tasks lost.
func (m *Master) AgentFailure(agentID string, alsoStatus bool) {
	m.mu.Lock()
	defer m.mu.Unlock()
	m.rec("event", "FAILURE", "", agentID, 0, map[string]interface{}{"agent": true})
	m.send(&scheduler.Event{Type: scheduler.Event_FAILURE, Failure: &scheduler.Event_Failure{AgentID: &mesos.AgentID{Value: agentID}}})
	if a := m.agentByID(agentID); a != nil {
		a.Down = true
	}
	for _, t := range m.tasks {
		if t.AgentID == agentID && !t.Terminal {
			if alsoStatus {
				m.statusLocked(t, "TASK_LOST", "", "agent removed")
			} else {
				t.Terminal = true
				t.Mesos = "TASK_LOST"
			}
		}
	}
}

func (m *Master) kill(id string) {
	t := m.tasks[id]
	if t == nil {
		return
	}
	t.KillAsked++
	if t.Terminal {
		// Mesos answers a kill of an unknown/terminal task with the terminal status again
		m.statusLocked2(t, t.Mesos, "kill of terminal task")
		return
	}
	how := "killed"
	if m.OnKill != nil {
		how = m.OnKill(t)
	}
	switch how {
	case "killed":
		go func() {
			time.Sleep(2 * time.Millisecond)
			m.mu.Lock()
			defer m.mu.Unlock()
			if !t.Terminal {
				m.rec("exec", "KILLED", t.ID, t.AgentID, 0, nil)
				m.statusLocked(t, "TASK_KILLED", "", "killed on request")
			}
		}()
	case "failed":
		go func() {
			m.mu.Lock()
			defer m.mu.Unlock()
			if !t.Terminal {
				m.statusLocked(t, "TASK_FAILED", "", "died while being killed")
			}
		}()
	case "ignore":
	}
}

// statusLocked2 re-sends a terminal status (does not change bookkeeping).
func (m *Master) statusLocked2(t *LaunchedTask, state, msg string) {
	st := mesos.TaskState(mesos.TaskState_value[state])
	now := float64(time.Now().UnixNano()) / 1e9
	status := mesos.TaskStatus{TaskID: mesos.TaskID{Value: t.ID}, State: &st, AgentID: &mesos.AgentID{Value: t.AgentID},
		ExecutorID: &mesos.ExecutorID{Value: t.ExecutorID}, Timestamp: &now, Message: &msg,
		UUID: []byte(fmt.Sprintf("uuid-%d", vlib.Seq())), Source: mesos.SOURCE_MASTER.Enum()}
	delivered := m.send(&scheduler.Event{Type: scheduler.Event_UPDATE, Update: &scheduler.Event_Update{Status: status}})
	m.rec("event", "UPDATE", t.ID, t.AgentID, 0, map[string]interface{}{"state": state, "resend": true, "delivered": delivered, "env": t.EnvID})
}

func (m *Master) reconcile(r *scheduler.Call_Reconcile) {
	if len(r.GetTasks()) == 0 {
		for _, id := range m.order {
			t := m.tasks[id]
			if !t.Terminal {
				m.statusLocked(t, t.Mesos, "REASON_RECONCILIATION", "reconciliation")
			}
		}
		return
	}
	for _, rt := range r.GetTasks() {
		if t := m.tasks[rt.GetTaskID().Value]; t != nil {
			m.statusLocked(t, t.Mesos, "REASON_RECONCILIATION", "reconciliation")
		}
	}
}

// NonTerminal lists tasks the master still considers alive.
func (m *Master) NonTerminal() []string {
	m.mu.Lock()
	defer m.mu.Unlock()
	var out []string
	for _, id := range m.order {
		if !m.tasks[id].Terminal {
			out = append(out, id)
		}
	}
	return out
}
