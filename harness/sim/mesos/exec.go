package simmesos

import (
	"encoding/json"
	"fmt"
	"time"

	mesos "github.com/mesos/mesos-go/api/v1/lib"
	"github.com/mesos/mesos-go/api/v1/lib/scheduler"
)

// message handles a scheduler→executor MESSAGE (m.mu held): the fake executor
// of the target task decodes the command, consults OnCommand and replies the way
// executor/handlers.go does.
func (m *Master) message(msg *scheduler.Call_Message) {
	var cmd struct {
		Name        string            `json:"name"`
		ID          string            `json:"id"`
		EnvID       string            `json:"environmentId"`
		Arguments   map[string]string `json:"arguments"`
		Source      string            `json:"source"`
		Event       string            `json:"event"`
		Destination string            `json:"destination"`
		TargetList  []struct {
			TaskId struct {
				Value string `json:"value"`
			}
		} `json:"targetList"`
	}
	if err := json.Unmarshal(msg.GetData(), &cmd); err != nil || len(cmd.TargetList) != 1 {
		m.rec("exec", "BAD_MESSAGE", "", msg.GetAgentID().Value, 0, map[string]interface{}{"data": string(msg.GetData())})
		return
	}
	tid := cmd.TargetList[0].TaskId.Value
	t := m.tasks[tid]
	if t == nil || t.Terminal || t.Mesos != "TASK_RUNNING" {
		// real executor: "no active task" → no response at all
		m.rec("exec", "CMD_NO_ACTIVE_TASK", tid, msg.GetAgentID().Value, 0, map[string]interface{}{"name": cmd.Name, "id": cmd.ID, "event": cmd.Event})
		return
	}
	cs := CommandSeen{Name: cmd.Name, ID: cmd.ID, Event: cmd.Event, Source: cmd.Source, Destination: cmd.Destination, Arguments: cmd.Arguments, EnvID: cmd.EnvID}
	rep := Reply{Kind: "ok"}
	if m.OnCommand != nil {
		rep = m.OnCommand(t, &cs)
	}
	cs.Behaviour = rep.Kind
	cs.Seq = m.rec("exec", "CMD", tid, t.AgentID, 0, map[string]interface{}{"name": cmd.Name, "id": cmd.ID, "event": cmd.Event, "src": cmd.Source, "dst": cmd.Destination, "env": cmd.EnvID, "task_env": t.EnvID, "state": t.State, "behaviour": rep.Kind, "nargs": len(cmd.Arguments)})
	t.Commands = append(t.Commands, cs)
	go m.runReply(tid, cmd.Name, cmd.ID, cmd.EnvID, cmd.Source, cmd.Event, cmd.Destination, rep)
}

func (m *Master) runReply(tid, name, id, envID, src, evt, dst string, rep Reply) {
	if rep.Gate != nil {
		<-rep.Gate
	}
	if rep.Delay > 0 {
		time.Sleep(rep.Delay)
	}
	m.mu.Lock()
	defer m.mu.Unlock()
	t := m.tasks[tid]
	if t == nil {
		return
	}
	reply := func(errText, state string) {
		var data []byte
		if name == "MesosCommand_TriggerHook" {
			data, _ = json.Marshal(map[string]interface{}{"name": name, "id": id, "environmentId": envID, "error": errText, "_messageType": "MesosCommandResponse", "taskId": tid})
		} else {
			data, _ = json.Marshal(map[string]interface{}{"name": name, "id": id, "environmentId": envID, "error": errText, "_messageType": "MesosCommandResponse", "state": state, "taskId": tid})
		}
		delivered := m.send(&scheduler.Event{Type: scheduler.Event_MESSAGE, Message: &scheduler.Event_Message{
			AgentID: mesos.AgentID{Value: t.AgentID}, ExecutorID: mesos.ExecutorID{Value: t.ExecutorID}, Data: data}})
		m.rec("exec", "REPLY", tid, t.AgentID, 0, map[string]interface{}{"name": name, "id": id, "event": evt, "error": errText, "state": state, "delivered": delivered})
	}
	if t.Terminal {
		if rep.AfterDeath && (rep.Kind == "ok" || rep.Kind == "") && name != "MesosCommand_TriggerHook" {
			reply("", dst)
		}
		return
	}
	switch rep.Kind {
	case "ok", "late", "twice", "":
		if name == "MesosCommand_TriggerHook" {
			reply("", "")
			if rep.Kind == "twice" {
				reply("", "")
			}
			return
		}
		if src != t.State {
			// the real executor/device refuses a transition whose source does not match
			reply(fmt.Sprintf("transition %s refused: task in state %s, not %s", evt, t.State, src), t.State)
			return
		}
		t.State = dst
		if rep.ForceState != "" {
			t.State = rep.ForceState
		}
		reply("", t.State)
		if rep.Kind == "twice" {
			reply("", t.State)
		}
	case "error-stay":
		txt := rep.ErrorText
		if txt == "" {
			txt = "scripted failure, task stays in " + t.State
		}
		reply(txt, t.State)
	case "error-to-error":
		t.State = "ERROR"
		txt := rep.ErrorText
		if txt == "" {
			txt = "scripted failure, task went to ERROR"
		}
		reply(txt, "ERROR")
	case "silent":
	case "die":
		ds := rep.DieState
		if ds == "" {
			ds = "TASK_FAILED"
		}
		m.statusLocked(t, ds, "", "died during command (scripted)")
	}
}

// DeviceEvent sends an executor→scheduler DeviceEvent message for a task.
// typ: e.g. "TASK_INTERNAL_ERROR", "END_OF_STREAM", "BASIC_TASK_TERMINATED".
func (m *Master) DeviceEvent(tid string, typ int, typName string, extra map[string]interface{}) {
	m.mu.Lock()
	defer m.mu.Unlock()
	t := m.tasks[tid]
	if t == nil {
		return
	}
	payload := map[string]interface{}{
		"_messageType": "DeviceEvent",
		"type":         typ,
		"origin": map[string]interface{}{
			"agentId":    map[string]interface{}{"value": t.AgentID},
			"executorId": map[string]interface{}{"value": t.ExecutorID},
			"taskId":     map[string]interface{}{"value": t.ID},
		},
		"labels": map[string]string{"environmentId": t.EnvID},
	}
	for k, v := range extra {
		payload[k] = v
	}
	data, _ := json.Marshal(payload)
	delivered := m.send(&scheduler.Event{Type: scheduler.Event_MESSAGE, Message: &scheduler.Event_Message{
		AgentID: mesos.AgentID{Value: t.AgentID}, ExecutorID: mesos.ExecutorID{Value: t.ExecutorID}, Data: data}})
	m.rec("exec", "DEVICE_EVENT", tid, t.AgentID, 0, map[string]interface{}{"type": typName, "delivered": delivered, "env": t.EnvID})
}

// RawMessage sends an arbitrary executor→scheduler message on behalf of a task.
func (m *Master) RawMessage(tid string, data []byte) {
	m.mu.Lock()
	defer m.mu.Unlock()
	t := m.tasks[tid]
	if t == nil {
		return
	}
	m.send(&scheduler.Event{Type: scheduler.Event_MESSAGE, Message: &scheduler.Event_Message{
		AgentID: mesos.AgentID{Value: t.AgentID}, ExecutorID: mesos.ExecutorID{Value: t.ExecutorID}, Data: data}})
}

// SetTaskState forces the executor-side state of a task (scenario set-up).
func (m *Master) SetTaskState(tid, state string) {
	m.mu.Lock()
	defer m.mu.Unlock()
	if t := m.tasks[tid]; t != nil {
		t.State = state
	}
}
