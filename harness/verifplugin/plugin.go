// Package verifplugin is an integration plugin (registered through the public
// integration.RegisterPlugin) whose functions record when and in which context
// they run. Records are appended as JSON lines to $VERIF_PLUGIN_LOG (whole-core
// simulation: the core is a child process) and/or handed to Sink (in-process).
//
// Behaviour is scripted through variables visible in the call's var stack:
//
//	verif_tag          free label copied into the record
//	verif_fail         "true" → the call fails (__call_error)
//	verif_sleep_ms     sleep this long before returning
//	verif_gate         path of a file: block until it exists (or the call times out)
//	verif_snapshot     "true" → also store GetTasks/GetEnvironments of the core's own gRPC API
package verifplugin

import (
	"context"
	"encoding/json"
	"fmt"
	"os"
	"strconv"
	"sync"
	"sync/atomic"
	"time"

	"github.com/spf13/viper"
	"google.golang.org/grpc"
	"google.golang.org/grpc/credentials/insecure"

	"github.com/AliceO2Group/Control/common/utils/uid"
	"github.com/AliceO2Group/Control/core/environment"
	"github.com/AliceO2Group/Control/core/integration"
	pb "github.com/AliceO2Group/Control/core/protos"
	"github.com/AliceO2Group/Control/core/workflow/callable"
)

type Record struct {
	Seq      int64             `json:"seq"`
	TsNs     int64             `json:"ts_ns"`
	Phase    string            `json:"phase"` // start | end
	Func     string            `json:"func"`
	Env      string            `json:"env"`
	Role     string            `json:"role"`
	Trigger  string            `json:"trigger"`
	Await    string            `json:"await"`
	Critical bool              `json:"critical"`
	Tag      string            `json:"tag"`
	State    string            `json:"state"`      // environment state seen through the manager
	CurTrans string            `json:"transition"` // CurrentTransition()
	RunNo    uint32            `json:"run_number"`
	Vars     map[string]string `json:"vars,omitempty"`
	Failed   bool              `json:"failed,omitempty"`
	Tasks    []TaskSnap        `json:"tasks,omitempty"`
	Envs     []string          `json:"envs,omitempty"`
	SnapErr  string            `json:"snap_err,omitempty"`
}

type TaskSnap struct {
	ID     string `json:"id"`
	Class  string `json:"class"`
	Env    string `json:"env"`
	Locked bool   `json:"locked"`
	State  string `json:"state"`
	Status string `json:"status"`
}

var (
	seq  int64
	mu   sync.Mutex
	file *os.File
	// Sink, if set, receives every record (in-process monitors).
	Sink func(Record)
)

var watched = []string{"run_number", "runNumber", "run_start_time_ms", "run_start_completion_time_ms", "run_end_time_ms", "run_end_completion_time_ms", "last_run_number", "environment_id", "enter_state_time_ms"}

func emit(r Record) {
	mu.Lock()
	defer mu.Unlock()
	if file == nil {
		if p := os.Getenv("VERIF_PLUGIN_LOG"); p != "" {
			file, _ = os.OpenFile(p, os.O_CREATE|os.O_WRONLY|os.O_APPEND, 0o644)
		}
	}
	if file != nil {
		b, _ := json.Marshal(r)
		file.Write(append(b, '\n'))
	}
	if Sink != nil {
		Sink(r)
	}
}

type Plugin struct{}

func New(endpoint string) integration.Plugin { return &Plugin{} }

// Register registers the plugin under the name "verif".
func Register() {
	integration.RegisterPlugin("verif", "verifPluginEndpoint", New)
}

func (p *Plugin) GetName() string            { return "verif" }
func (p *Plugin) GetPrettyName() string      { return "Verification plugin" }
func (p *Plugin) GetEndpoint() string        { return viper.GetString("verifPluginEndpoint") }
func (p *Plugin) GetConnectionState() string { return "READY" }
func (p *Plugin) GetData(_ []any) string     { return "" }
func (p *Plugin) GetEnvironmentsData(envIds []uid.ID) map[uid.ID]string {
	return map[uid.ID]string{}
}
func (p *Plugin) GetEnvironmentsShortData(envIds []uid.ID) map[uid.ID]string {
	return map[uid.ID]string{}
}
func (p *Plugin) Init(_ string) error { return nil }
func (p *Plugin) Destroy() error      { return nil }
func (p *Plugin) ObjectStack(_ map[string]string, _ map[string]string) map[string]interface{} {
	return map[string]interface{}{}
}

func snapshot(r *Record) {
	port := viper.GetInt("controlPort")
	ctx, cancel := context.WithTimeout(context.Background(), 3*time.Second)
	defer cancel()
	conn, err := grpc.DialContext(ctx, fmt.Sprintf("127.0.0.1:%d", port), grpc.WithTransportCredentials(insecure.NewCredentials()), grpc.WithBlock())
	if err != nil {
		r.SnapErr = err.Error()
		return
	}
	defer conn.Close()
	cl := pb.NewControlClient(conn)
	tr, err := cl.GetTasks(ctx, &pb.GetTasksRequest{})
	if err != nil {
		r.SnapErr = err.Error()
		return
	}
	for _, t := range tr.GetTasks() {
		r.Tasks = append(r.Tasks, TaskSnap{ID: t.GetTaskId(), Class: t.GetClassName(), Locked: t.GetLocked(), State: t.GetState(), Status: t.GetStatus()})
	}
	er, err := cl.GetEnvironments(ctx, &pb.GetEnvironmentsRequest{ShowAll: true, ShowTaskInfos: true})
	if err == nil {
		for _, e := range er.GetEnvironments() {
			r.Envs = append(r.Envs, e.GetId()+":"+e.GetState())
			for _, t := range e.GetTasks() {
				for i := range r.Tasks {
					if r.Tasks[i].ID == t.GetTaskId() {
						r.Tasks[i].Env = e.GetId()
					}
				}
			}
		}
	}
}

func (p *Plugin) CallStack(data interface{}) map[string]interface{} {
	call, ok := data.(*callable.Call)
	if !ok {
		return nil
	}
	vs := call.VarStack
	mk := func(fn string) func() string {
		return func() (out string) {
			r := Record{Func: fn, Env: vs["environment_id"], Role: call.GetParentRolePath(), Trigger: call.GetTraits().Trigger,
				Await: call.GetTraits().Await, Critical: call.GetTraits().Critical, Tag: vs["verif_tag"], Vars: map[string]string{}}
			for _, k := range watched {
				if v, ok := vs[k]; ok {
					r.Vars[k] = v
				}
			}
			if id, err := uid.FromString(r.Env); err == nil {
				if mgr := environment.ManagerInstance(); mgr != nil {
					if env, err := mgr.Environment(id); err == nil && env != nil {
						r.State = env.CurrentState()
						r.CurTrans = env.CurrentTransition()
						r.RunNo = env.GetCurrentRunNumber()
					}
				}
			}
			if vs["verif_snapshot"] == "true" {
				snapshot(&r)
			}
			r.Phase = "start"
			r.Seq = atomic.AddInt64(&seq, 1)
			r.TsNs = time.Now().UnixNano()
			emit(r)
			timeout := callable.AcquireTimeout(30*time.Second, vs, fn, r.Env)
			deadline := time.Now().Add(timeout)
			if ms, err := strconv.Atoi(vs["verif_sleep_ms"]); err == nil && ms > 0 {
				time.Sleep(time.Duration(ms) * time.Millisecond)
			}
			if g := vs["verif_gate"]; g != "" {
				for time.Now().Before(deadline.Add(5 * time.Second)) {
					if _, err := os.Stat(g); err == nil {
						break
					}
					time.Sleep(5 * time.Millisecond)
				}
			}
			if vs["verif_fail"] == "true" || fn == "Fail" {
				call.VarStack["__call_error"] = "verif: scripted failure tag=" + r.Tag
				r.Failed = true
			}
			r.Phase = "end"
			r.Seq = atomic.AddInt64(&seq, 1)
			r.TsNs = time.Now().UnixNano()
			r.Tasks, r.Envs = nil, nil
			emit(r)
			return
		}
	}
	return map[string]interface{}{"Probe": mk("Probe"), "Fail": mk("Fail"), "Slow": mk("Slow"), "Snapshot": mk("Snapshot")}
}
