#!/usr/bin/env python3
"""Parent side of every check: build the harness binary from /repo's current
tree (-race -tags verif), spawn one child process per batch under a watchdog,
read the race-detector logs, match violations against known_findings.json, write
the evidence file and print the verdict lines.

exit 0 = held (or only known findings); 1 = violation; 2 = inconclusive.
stdlib only."""
import argparse, glob, hashlib, json, os, re, shutil, signal, subprocess, sys, tempfile, time
from concurrent.futures import ThreadPoolExecutor

VERIF = os.path.dirname(os.path.dirname(os.path.abspath(__file__)))
HARNESS = os.path.join(VERIF, "harness")
REPO = os.environ.get("VERIF_REPO", "/repo")
# VERIF_ALT=<tag>: run against another checkout (VERIF_REPO) without touching bin/, out/, evidence/ of the real runs
ALT = os.environ.get("VERIF_ALT", "")
BIN_DIR = os.path.join(VERIF, "bin" + ("-" + ALT if ALT else ""))
OUT_DIR = os.path.join(VERIF, "out" + ("-" + ALT if ALT else ""))
EVID_DIR = os.path.join(VERIF, "evidence" + ("-" + ALT if ALT else ""))
if not ALT and (os.environ.get("VERIF_ONLY") or os.environ.get("VERIF_DEBUG")):
    # a debugging run of selected cases must not replace the evidence of the registered check
    EVID_DIR = os.path.join(VERIF, "evidence-debug")
GOENV = dict(GOFLAGS="-mod=mod", GOPROXY="off", GOSUMDB="off", GOTOOLCHAIN="local")

PROPS = {}
for _f in sorted(glob.glob(os.path.join(VERIF, "tools", "props.d", "*.json"))):
    with open(_f) as f:
        PROPS[os.path.basename(_f)[:-5]] = json.load(f)


def env_for_go():
    e = dict(os.environ)
    e.update(GOENV)
    return e


def build(binname, log):
    """(ok, inconclusive_reason)"""
    os.makedirs(BIN_DIR, exist_ok=True)
    # go.sum comes from the repository (harness has no extra deps beyond porcupine)
    sums = open(os.path.join(REPO, "go.sum")).read()
    extra = os.path.join(HARNESS, "go.sum.extra")
    if os.path.exists(extra):
        sums += open(extra).read()
    out = os.path.join(BIN_DIR, binname)
    cmd = ["go", "build", "-race", "-tags", "verif", "-o", out]
    if REPO != "/repo":
        # another checkout: same module file with the replace directive pointing there
        mf = os.path.join(BIN_DIR, "go.mod")
        gm = open(os.path.join(HARNESS, "go.mod")).read().replace("=> /repo", "=> " + REPO)
        with open(mf, "w") as f:
            f.write(gm)
        with open(os.path.join(BIN_DIR, "go.sum"), "w") as f:
            f.write(sums)
        cmd += ["-modfile=" + mf]
    else:
        with open(os.path.join(HARNESS, "go.sum"), "w") as f:
            f.write(sums)
    cmd += ["./cmd/" + binname]
    t0 = time.time()
    p = subprocess.run(cmd, cwd=HARNESS, env=env_for_go(), stdout=subprocess.PIPE, stderr=subprocess.STDOUT, text=True)
    with open(log, "w") as f:
        f.write(" ".join(cmd) + "\n" + p.stdout + "\nbuild_s=%.1f rc=%d\n" % (time.time() - t0, p.returncode))
    if p.returncode != 0:
        return False, "build failed (see %s): %s" % (log, p.stdout.strip().splitlines()[-1] if p.stdout.strip() else "?")
    return True, None


RUNTIME_PAT = re.compile(r"^\s+(/usr/local/go/|/usr/lib/go|/opt/veriftools/go|.*/go/src/runtime/|.*/pkg/mod/)")
FRAME_FILE = re.compile(r"^\s+(/\S+\.go):(\d+)")


def classify_crash(stderr_path):
    """Return (kind, headline, first_repo_or_harness_frame_path, func) from a Go crash dump."""
    try:
        txt = open(stderr_path, errors="replace").read()
    except OSError:
        return None
    m = re.search(r"^(panic: .*|fatal error: .*|SIGQUIT: quit)$", txt, re.M)
    if not m:
        return None
    head = m.group(1)
    rest = txt[m.end():]
    # first goroutine block after the headline
    lines = rest.splitlines()
    func = None
    prev = None
    for ln in lines:
        fm = FRAME_FILE.match(ln)
        if fm:
            path = fm.group(1)
            if path.startswith(REPO + "/") or "/verif/harness/" in path or path.startswith(HARNESS):
                return ("crash", head, path + ":" + fm.group(2), (prev or "").strip())
        else:
            prev = ln
    return ("crash", head, None, None)


def parse_race_logs(outdir):
    """Return list of reports: dict(stacks=[[(func,file)],[...]], text)."""
    reps = []
    for fn in sorted(glob.glob(os.path.join(outdir, "race.*"))):
        txt = open(fn, errors="replace").read()
        for block in txt.split("=================="):
            if "WARNING: DATA RACE" not in block:
                continue
            stacks = []
            cur = None
            lines = block.splitlines()
            i = 0
            while i < len(lines):
                ln = lines[i]
                if re.match(r"^(Read|Write|Previous read|Previous write) at ", ln) or re.match(r"^Goroutine \d+ \(", ln):
                    cur = {"head": ln.strip(), "frames": []}
                    stacks.append(cur)
                elif cur is not None and ln.startswith("  ") and not ln.startswith("      "):
                    fnname = ln.strip()
                    loc = lines[i + 1].strip() if i + 1 < len(lines) else ""
                    cur["frames"].append((fnname, loc))
                    i += 1
                i += 1
            reps.append({"stacks": stacks, "text": block.strip()[:6000]})
    return reps


def strip_fn(fnname):
    # "pkg.(*T).M.func1()" -> "pkg.(*T).M.func1": drop only the trailing call parentheses
    return re.sub(r"\([^()]*\)$", "", fnname.strip())


def access_stacks(rep):
    return [s for s in rep["stacks"] if not s["head"].startswith("Goroutine")][:2]


def race_key(rep):
    """dedupe key: the two access stacks' repo frames, line numbers stripped"""
    parts = []
    for s in access_stacks(rep):
        fr = [strip_fn(f) for f, loc in s["frames"] if (REPO + "/") in loc or "AliceO2Group/Control" in f]
        parts.append(">".join(fr[:6]))
    return " || ".join(sorted(parts))


def attribute_race(rep, patterns):
    """A report counts for the property iff each of the two access stacks has, as
    its innermost repository frame, a function matching a guarded-state pattern."""
    acc = access_stacks(rep)
    if len(acc) < 2 or not patterns:
        return None
    tops = []
    for s in acc:
        top = None
        for f, loc in s["frames"]:
            if (REPO + "/") in loc:
                top = strip_fn(f)
                break
        if top is None:
            return None
        tops.append(top)
    hits = []
    for t in tops:
        ok = None
        for p in patterns:
            if re.search(p, t):
                ok = p
                break
        if ok is None:
            return None
        hits.append(t)
    return " <-> ".join(sorted(set(hits)))


def load_known():
    p = os.path.join(VERIF, "known_findings.json")
    if not os.path.exists(p):
        return []
    return json.load(open(p)).get("findings", [])


def main():
    ap = argparse.ArgumentParser()
    ap.add_argument("prop")
    ap.add_argument("--tier", default=os.environ.get("VERIF_TIER", "quick"))
    ap.add_argument("--replay", default=None)
    ap.add_argument("--keep", action="store_true")
    ap.add_argument("--jobs", type=int, default=0)
    a = ap.parse_args()
    pid = a.prop
    if pid not in PROPS:
        print("INCONCLUSIVE property=%s reason=unknown property" % pid)
        return 2
    cfg = PROPS[pid]
    parts = cfg.get("parts")
    if not parts:
        return run_single(pid, pid, a)
    if a.replay:
        w = json.load(open(a.replay))
        part = w.get("part") or parts[0]
        return run_single(part, pid, a)
    # composite property: run every part, merge the evidence under the property id
    t0 = time.time()
    rcs = []
    evs = []
    for part in parts:
        rcs.append(run_single(part, pid, a))
        try:
            evs.append(json.load(open(os.path.join(EVID_DIR, part + ".json"))))
        except Exception:
            pass
    merged = {"property_id": pid, "tier": "thorough" if a.tier == "thorough" else "quick",
              "seed": int(os.environ.get("VERIF_SEED", "1") or 1), "level": cfg.get("level", "exploration"),
              "coverage": {"evaluations": 0, "distinct_nontrivial": 0, "rule": cfg.get("rule", ""), "samples": [], "parts": {}},
              "assumptions": [], "wall_s": round(time.time() - t0, 2), "violations": 0}
    for part, ev in zip(parts, evs):
        cov = ev.get("coverage", {})
        merged["coverage"]["evaluations"] += cov.get("evaluations", 0)
        merged["coverage"]["distinct_nontrivial"] += cov.get("distinct_nontrivial", 0)
        merged["coverage"]["samples"] += cov.get("samples", [])[:3]
        merged["coverage"]["parts"][part] = cov
        merged["assumptions"] += ev.get("assumptions", [])
        merged["violations"] += ev.get("violations", 0)
        try:
            os.remove(os.path.join(EVID_DIR, part + ".json"))
        except OSError:
            pass
    if not merged["coverage"]["rule"]:
        merged["coverage"]["rule"] = " || ".join("%s: %s" % (p, merged["coverage"]["parts"][p].get("rule", "")) for p in merged["coverage"]["parts"])
    tmp = os.path.join(EVID_DIR, pid + ".json.tmp")
    with open(tmp, "w") as f:
        json.dump(merged, f, indent=1, default=str)
    os.replace(tmp, os.path.join(EVID_DIR, pid + ".json"))
    if 1 in rcs:
        return 1
    if 2 in rcs:
        return 2
    return 0


def run_single(pid, report_as, a):
    cfg = PROPS[pid]
    tier = "thorough" if a.tier == "thorough" else "quick"
    seed = int(os.environ.get("VERIF_SEED", "1") or 1)
    t0 = time.time()
    tcfg = dict(cfg.get("common", {}))
    tcfg.update(cfg.get(tier, {}))
    nbatch = int(tcfg.get("nbatch", 1))
    par = a.jobs or int(tcfg.get("parallel", min(nbatch, 8)))
    timeout_s = int(tcfg.get("timeout_s", 600))
    binname = cfg["bin"]

    root = os.path.join(OUT_DIR, pid)
    os.makedirs(root, exist_ok=True)
    # keep disk bounded: drop older runs of this property (replay files of the latest run stay)
    for d in sorted(glob.glob(os.path.join(root, "run-*"))):
        m = re.search(r"-(\d+)$", d)
        if m and os.path.exists("/proc/%s" % m.group(1)):
            continue  # a concurrent run of the same check is still using it
        shutil.rmtree(d, ignore_errors=True)
    run = os.path.join(root, "run-%s-s%d-%d" % (tier, seed, os.getpid()))
    os.makedirs(run)

    ok, why = build(binname, os.path.join(run, "build.log"))
    for extra in cfg.get("extra_bins", []):
        if ok:
            ok, why = build(extra, os.path.join(run, "build-%s.log" % extra))
    if not ok:
        write_evidence(pid, cfg, tier, seed, t0, None, [], [], [why], {}, [], [])
        print("INCONCLUSIVE property=%s reason=%s" % (report_as, why))
        return 2

    if a.replay:
        # replay = re-execute the recorded batch with the recorded seed/tier
        w = json.load(open(a.replay))
        seed = int(w.get("seed", seed))
        tier = w.get("tier", tier)
        batches = [int(w.get("batch", 0))]
        nbatch = int(w.get("nbatch", nbatch))
    else:
        batches = list(range(nbatch))

    def run_batch(b):
        bdir = os.path.join(run, "b%03d" % b)
        os.makedirs(bdir, exist_ok=True)
        env = dict(os.environ)
        env.update(GOENV)
        env["GORACE"] = "halt_on_error=0 log_path=%s/race history_size=3" % bdir
        env["VERIF_BIN"] = BIN_DIR
        env["VERIF_DIR"] = VERIF
        # scratch space of the child (template repositories, core working dirs, gate files): created per
        # batch, removed afterwards; kept out of the output tree because the repo manager of the code
        # under test mis-parses local repository paths that contain dots (e.g. a snapshot under ~/.vp)
        env["TMPDIR"] = tempfile.mkdtemp(prefix="verif-%s-b%03d-" % (pid, b), dir="/tmp")
        for k, v in tcfg.get("env", {}).items():
            env[k] = str(v)
        cmd = ["timeout", "-s", "QUIT", "-k", "20", str(timeout_s), os.path.join(BIN_DIR, binname), pid,
               "--seed", str(seed), "--tier", tier, "--batch", str(b), "--nbatch", str(nbatch), "--out", bdir]
        cmd += [str(x) for x in tcfg.get("args", [])]
        with open(os.path.join(bdir, "stdout"), "w") as so, open(os.path.join(bdir, "stderr"), "w") as se:
            p = subprocess.run(cmd, stdout=so, stderr=se, env=env, cwd=bdir)
        shutil.rmtree(env["TMPDIR"], ignore_errors=True)
        return b, bdir, p.returncode

    def run_batch_retry(b):
        """An inconclusive batch (harness-level trouble: loaded machine, port stolen, watchdog) is
        re-run once from scratch; only a batch that is inconclusive twice stays inconclusive.
        A batch that reported a violation is never re-run."""
        r = run_batch(b)
        _, bdir, rc = r
        try:
            res = json.load(open(os.path.join(bdir, "result.json")))
        except Exception:
            res = None
        crashed = classify_crash(os.path.join(bdir, "stderr"))
        retry = False
        if res is None:
            retry = not (crashed and crashed[2] and crashed[2].startswith(REPO + "/"))
        elif res.get("inconclusive") and not res.get("violations"):
            retry = True
        if not retry or a.replay:
            return r
        os.rename(bdir, bdir + ".try1")
        return run_batch(b)

    with ThreadPoolExecutor(max_workers=max(1, par)) as ex:
        results = list(ex.map(run_batch_retry, batches))

    evals = 0
    fps = set()
    samples = []
    violations = []      # dicts with rule, class, detail, witness, batch
    inconcl = []
    counters = {}
    interleavings = 0
    races_attr = []
    races_unattr = {}
    patterns = cfg.get("race_patterns", [])
    crash_is_violation = cfg.get("crash_is_violation", True)
    for b, bdir, rc in results:
        rp = os.path.join(bdir, "result.json")
        res = None
        if os.path.exists(rp):
            try:
                res = json.load(open(rp))
            except Exception:
                res = None
        if res:
            evals += res["evaluations"]
            fps.update(res.get("fingerprints") or [])
            for s in res["samples"]:
                if len(samples) < 5:
                    samples.append(s)
            for v in res["violations"]:
                v["batch"] = b
                violations.append(v)
            inconcl += ["b%d: %s" % (b, x) for x in res["inconclusive"]]
            for k, v in res["counters"].items():
                counters[k] = counters.get(k, 0) + v
            interleavings += res.get("distinct_interleavings", 0)
        if not res or not res.get("finished"):
            # child died: attribute
            last_case = None
            try:
                for ln in open(os.path.join(bdir, "cases.jsonl"), errors="replace"):
                    try:
                        j = json.loads(ln)
                    except Exception:
                        continue
                    if "case" in j and "desc" in j:
                        last_case = j
                    # violations persisted before the crash
                    if "violation" in j and not res:
                        pass
            except OSError:
                pass
            cr = classify_crash(os.path.join(bdir, "stderr"))
            if rc in (124, 137) or (cr and cr[1].startswith("SIGQUIT")):
                inconcl.append("b%d: watchdog expired after %ds (rc=%d); last case %s" % (b, timeout_s, rc, json.dumps(last_case)[:300]))
            elif cr and cr[2] and cr[2].startswith(REPO + "/") and crash_is_violation:
                where = re.sub(r":\d+$", "", cr[2][len(REPO) + 1:])
                violations.append({"rule": "CRASH", "class": "%s@%s" % (re.sub(r"0x[0-9a-f]+", "0x?", cr[1])[:80], where),
                                   "detail": "process died in repository code: %s at %s (%s)" % (cr[1], cr[2], cr[3]),
                                   "witness": last_case, "batch": b, "case_id": (last_case or {}).get("case", 0)})
            else:
                inconcl.append("b%d: child ended rc=%d without result (%s)" % (b, rc, (cr[1] + " at " + str(cr[2])) if cr else "no crash dump"))
        for rep in parse_race_logs(bdir):
            at = attribute_race(rep, patterns)
            if at:
                races_attr.append((at, rep, b))
            else:
                k = race_key(rep)
                races_unattr[k] = races_unattr.get(k, 0) + 1

    seen_race = set()
    for at, rep, b in races_attr:
        if at in seen_race:
            continue
        seen_race.add(at)
        violations.append({"rule": "RACE", "class": at, "detail": "data race on guarded state: " + at,
                           "witness": {"report": rep["text"]}, "batch": b, "case_id": 0})

    # floors
    for k, mn in ({} if a.replay else tcfg.get("floors", {})).items():
        if counters.get(k, 0) < mn:
            inconcl.append("floor not reached: %s=%d < %d" % (k, counters.get(k, 0), mn))
    if len(fps) < 2 and not a.replay:
        inconcl.append("fewer than 2 distinct non-trivial cases")

    known = load_known()
    new_viol = []
    known_seen = []
    printed = set()
    for v in violations:
        key = v["rule"] + "/" + v["class"]
        kf = None
        for k in known:
            if k.get("status") == "known" and k["property"] == report_as and k["class"] == key:
                kf = k
                break
        if kf:
            if key not in printed:
                print("KNOWN-FINDING: property=%s %s [%s]" % (report_as, kf["what"], key))
                printed.add(key)
                known_seen.append(key)
            continue
        new_viol.append(v)

    vio_files = []
    printed_v = set()
    for i, v in enumerate(new_viol):
        key = v["rule"] + "/" + v["class"]
        if key in printed_v:
            continue
        printed_v.add(key)
        path = os.path.join(run, "violation-%02d.json" % len(vio_files))
        with open(path, "w") as f:
            json.dump({"property": report_as, "part": pid, "seed": seed, "tier": tier, "batch": v.get("batch", 0), "nbatch": nbatch,
                       "rule": v["rule"], "class": v["class"], "detail": v["detail"], "case_id": v.get("case_id"),
                       "witness": v.get("witness")}, f, indent=1, default=str)
        vio_files.append(path)
        print("VIOLATION property=%s replay=%s" % (report_as, path))
        print("  rule=%s class=%s" % (v["rule"], v["class"]))
        print("  " + v["detail"][:600])

    write_evidence(pid, cfg, tier, seed, t0, evals, sorted(fps), samples, inconcl, counters,
                   known_seen, [{"class": k, "count": n} for k, n in sorted(races_unattr.items())][:40],
                   interleavings=interleavings, nviol=len(printed_v), race_attr=len(seen_race), rule=tcfg.get("rule") or cfg.get("rule", ""))
    if printed_v:
        return 1
    if inconcl:
        for r in inconcl[:10]:
            print("INCONCLUSIVE property=%s reason=%s" % (report_as, r))
        return 2
    print("HELD property=%s tier=%s seed=%d evaluations=%d distinct_nontrivial=%d known_findings=%d wall_s=%.1f" %
          (pid, tier, seed, evals, len(fps), len(known_seen), time.time() - t0))
    if not a.keep:
        # remove bulky per-batch logs of a clean run; keep build log + summaries
        for b, bdir, rc in results:
            for fn in ("cases.jsonl",):
                try:
                    os.remove(os.path.join(bdir, fn))
                except OSError:
                    pass
    return 0


def write_evidence(pid, cfg, tier, seed, t0, evals, fps, samples, inconcl, counters, known_seen, unattr,
                   interleavings=0, nviol=0, race_attr=0, rule=""):
    os.makedirs(os.path.join(EVID_DIR), exist_ok=True)
    ev = {
        "property_id": pid,
        "tier": tier,
        "seed": seed,
        "level": cfg.get("level", "exploration"),
        "coverage": {
            "evaluations": int(evals or 0),
            "distinct_nontrivial": len(fps),
            "rule": rule,
            "samples": samples,
            "observed": counters,
            "distinct_interleavings": interleavings,
            "race_reports_attributed": race_attr,
            "unattributed_races": unattr,
            "known_findings_seen": known_seen,
            "inconclusive_cases": inconcl,
        },
        "assumptions": cfg.get("assumptions", []),
        "wall_s": round(time.time() - t0, 2),
        "violations": nviol,
    }
    if cfg.get("exhaustive"):
        ev["coverage"]["exhaustive"] = True
    tmp = os.path.join(EVID_DIR, pid + ".json.tmp")
    with open(tmp, "w") as f:
        json.dump(ev, f, indent=1, default=str)
    os.replace(tmp, os.path.join(EVID_DIR, pid + ".json"))


if __name__ == "__main__":
    sys.exit(main())
