#!/bin/sh
# Build every harness binary once (warms the Go build cache); offline.
set -e
cd "$(dirname "$0")/.."
export GOFLAGS=-mod=mod GOPROXY=off GOSUMDB=off GOTOOLCHAIN=local
mkdir -p bin out evidence
cat /repo/go.sum > harness/go.sum
[ -f harness/go.sum.extra ] && cat harness/go.sum.extra >> harness/go.sum
cd harness
for d in cmd/*/; do
  n=$(basename "$d")
  echo "building $n"
  go build -race -tags verif -o ../bin/$n ./cmd/$n || echo "WARN: $n failed to build"
done
