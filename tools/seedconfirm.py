#!/usr/bin/env python3
"""tools/seedconfirm.py <seed dir> : confirm a seeded change in a scratch worktree of /repo.
Steps: patch applies; go build ./...; existing suite passes with the patch (same failures as the
unchanged tree: only walnut/*); the demonstration FAILS with the patch and PASSES without it.
The demonstration is taken from RUN.txt: `cp <file> <dest>` lines and the first `go test`/`go run` line.
Prints a JSON summary."""
import json, os, re, shutil, subprocess, sys, tempfile

seed = os.path.abspath(sys.argv[1])
skip_suite = "--skip-suite" in sys.argv
env = dict(os.environ, GOFLAGS="-mod=mod", GOPROXY="off", GOSUMDB="off", GOTOOLCHAIN="local")
wt = tempfile.mkdtemp(prefix="seedconfirm-", dir="/tmp")
os.rmdir(wt)
res = {"seed": seed}


def sh(cmd, cwd, timeout=1500):
    p = subprocess.run(cmd, shell=True, cwd=cwd, env=env, stdout=subprocess.PIPE, stderr=subprocess.STDOUT, text=True, timeout=timeout)
    return p.returncode, p.stdout


try:
    rc, out = sh("git -C /repo worktree add -q --detach %s HEAD" % wt, "/")
    assert rc == 0, out
    run = open(os.path.join(seed, "RUN.txt")).read()
    copies = []
    cmd = None
    for ln in run.splitlines():
        ln = ln.strip()
        m = re.match(r"^cp\s+(.+?)\s+(\S+)\s*(#.*)?$", ln)
        if m:
            # one or several sources ("<this dir>/a_test.go <this dir>/b_test.go core/task/")
            names = [os.path.basename(w) for w in m.group(1).split() if os.path.isfile(os.path.join(seed, os.path.basename(w)))]
            for name in names:
                src = os.path.join(seed, name)
                dst = re.sub(r"^<[^>]+>/", "", m.group(2))  # "<repo>/core/..." -> "core/..."
                if os.path.isdir(os.path.join(wt, dst)) or dst.endswith("/") or len(names) > 1:
                    dst = os.path.join(dst, name)
                copies.append((src, dst))
        elif cmd is None and re.match(r"^(go test|go run)\b", ln):
            cmd = ln
    res["demo_cmd"] = cmd
    res["copies"] = [c[1] for c in copies]
    assert cmd and copies, "could not find demo command/copies in RUN.txt"

    def demo():
        for src, dst in copies:
            os.makedirs(os.path.dirname(os.path.join(wt, dst)), exist_ok=True)
            shutil.copy(src, os.path.join(wt, dst))
        rc, out = sh(cmd, wt, timeout=900)
        for _, dst in copies:
            try:
                os.remove(os.path.join(wt, dst))
            except OSError:
                pass
        return rc, out[-1500:]

    rc, out = demo()
    res["demo_without_patch_rc"] = rc
    if rc != 0:
        res["demo_without_patch_out"] = out
    rc, out = sh("git apply %s" % os.path.join(seed, "patch.diff"), wt)
    res["patch_applies"] = rc == 0
    assert rc == 0, out
    rc, out = sh("go build ./... && go build -tags verif ./core/... ./common/... ./executor/... ./apricot/... ./configuration/...", wt)
    res["builds"] = rc == 0
    if rc != 0:
        res["build_out"] = out[-1500:]
    rc, out = demo()
    res["demo_with_patch_rc"] = rc
    res["demo_with_patch_tail"] = out[-600:]
    if not skip_suite:
        rc, out = sh("go test -vet=off -count=1 -timeout 25m ./... 2>&1 | grep -E '^(FAIL|ok)\\s' | grep FAIL", wt)
        fails = sorted(set(l.split()[1] for l in out.splitlines() if l.startswith("FAIL") and len(l.split()) > 1))
        res["suite_failed_packages"] = fails
        res["suite_ok"] = all("walnut/" in f for f in fails)
    res["confirmed"] = bool(res.get("patch_applies") and res.get("builds") and res.get("demo_without_patch_rc") == 0 and res.get("demo_with_patch_rc") not in (0, None) and (skip_suite or res.get("suite_ok")))
except Exception as e:
    res["error"] = str(e)[:500]
    res["confirmed"] = False
finally:
    subprocess.run("git -C /repo worktree remove --force %s" % wt, shell=True, stdout=subprocess.DEVNULL, stderr=subprocess.DEVNULL)
    shutil.rmtree(wt, ignore_errors=True)
print(json.dumps(res, indent=1))
