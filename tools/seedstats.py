#!/usr/bin/env python3
"""tools/seedstats.py: numbers quoted in DESIGN.md §8.4, computed from seeded/*/meta.json."""
import glob, json, os, re
rows = []
for d in sorted(glob.glob("/verif/seeded/C*-*"), key=lambda p: (p.split("/")[-1].split("-")[0], int(p.split("-")[-1]))):
    m = json.load(open(d + "/meta.json"))
    sid = os.path.basename(d)
    hist = m.get("history") or []
    first = hist[0]["verdict"] if hist else m["verdict"]
    if m.get("caught_by") and not hist:
        first = "missed"
    rows.append((sid, m.get("verdict"), first, m.get("caught_by"), m.get("superseded_by_fix"), m.get("on_repo")))
tot = len(rows)
excl = [r[0] for r in rows if r[1] == "excluded-unconfirmed"]
caught = [r for r in rows if r[1] == "caught"]
cross = [r for r in caught if r[3]]
first = [r for r in caught if r[2] == "caught" and not r[3]]
sup = [r for r in rows if r[4]]
notc = [r[0] for r in rows if r[1] not in ("caught", "excluded-unconfirmed")]
print("total", tot, "excluded", excl)
print("caught", len(caught), "of which by another check", len(cross), "; caught at first run by own check", len(first))
print("escaped first, caught later (own or other check)", len(caught) - len(first))
print("cross:", ", ".join("%s (by %s)" % (r[0], "+".join(r[3])) for r in cross))
print("superseded:", [(r[0], r[4]) for r in sup])
print("not caught:", notc)
onrepo = [r for r in rows if r[5]]
bad = [(r[0], r[5]) for r in onrepo if any(isinstance(v, dict) and v.get("verdict") != "caught" for v in r[5].values()) or "error" in r[5]]
print("on_repo entries", len(onrepo), "not caught on /repo:", bad)
