#!/bin/bash
# tools/seedrun.sh <check id> <patch.diff> [tier]
# Runs one check against a scratch worktree of /repo with the patch applied,
# without touching /repo, bin/, out/ or evidence/. Prints the verdict lines.
set -u
PROP=$1; PATCH=$(readlink -f "$2"); TIER=${3:-quick}
TAG=seed$$
WT=/tmp/seedrun-$TAG
cd /verif
git -C /repo worktree add -q --detach "$WT" ${SEEDRUN_BASE:-HEAD} || exit 3
trap 'git -C /repo worktree remove --force "$WT" >/dev/null 2>&1; rm -rf /verif/bin-'$TAG' /verif/out-'$TAG' /verif/evidence-'$TAG'' EXIT
if ! git -C "$WT" apply "$PATCH"; then echo "PATCH-DOES-NOT-APPLY"; exit 3; fi
VERIF_ALT=$TAG VERIF_REPO=$WT ./check "$PROP" --tier "$TIER" > /tmp/seedrun-$TAG.out 2>&1
rc=$?
grep -E "^(VIOLATION|HELD|INCONCLUSIVE|KNOWN-FINDING)|^  rule=" /tmp/seedrun-$TAG.out | cut -c1-300 | head -${SEEDRUN_LINES:-12}
echo "rc=$rc"
rm -f /tmp/seedrun-$TAG.out
exit $rc
