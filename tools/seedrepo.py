#!/usr/bin/env python3
"""tools/seedrepo.py [seed ids...]
Final confirmation of the kept seeded changes against /repo ITSELF (as the brief asks):
for each /verif/seeded/<id>: `git -C /repo apply patch.diff`, run the check named in meta.json
(quick tier) from /verif against /repo, `git -C /repo checkout -- .`.  Needs /repo to be clean and
nobody else building from it.  Evidence files are saved and restored, so the evidence of the
unchanged tree is not replaced by a run against a changed one.  Writes the outcome into
meta.json ("on_repo": {...}) and prints one line per seed.  Without arguments the changes are taken
breadth first and those that already carry a conclusive on_repo entry are skipped, so the run can be
interrupted (SIGTERM, then `git -C /repo checkout -- . && git -C /repo clean -fdq`) and resumed."""
import glob, json, os, re, shutil, subprocess, sys, tempfile, time

os.chdir("/verif")
def _key(sid):  # breadth first: the first change of every property, then the second, ...
    m = re.match(r"(C\d+)-(\d+)$", sid)
    return (int(m.group(2)), m.group(1))
ids = sys.argv[1:] or sorted((os.path.basename(d) for d in glob.glob("seeded/C*-*")), key=_key)
# SEEDREPO_UNTIL=<epoch seconds>: no further change is started after that moment (tooling only, no verdict depends on it)
until = float(os.environ.get("SEEDREPO_UNTIL", "0"))
if subprocess.run(["git", "-C", "/repo", "status", "--porcelain"], capture_output=True, text=True).stdout.strip():
    sys.exit("/repo is not clean")
save = tempfile.mkdtemp(prefix="evsave-")
for f in glob.glob("evidence/*.json"):
    shutil.copy(f, save)
try:
    for sid in ids:
        d = os.path.join("seeded", sid)
        meta = json.load(open(os.path.join(d, "meta.json")))
        checks = meta.get("caught_by") or [meta["property"]]
        done = meta.get("on_repo")
        if not sys.argv[1:] and done and "error" not in done and all(v.get("verdict") != "inconclusive" for v in done.values()):
            continue  # confirmed in an earlier pass
        if until and time.time() > until:
            print("stopped at", sid, "(SEEDREPO_UNTIL)", flush=True)
            break
        if meta.get("superseded_by_fix"):
            print(sid, "skipped: needs the tree before fix", meta["superseded_by_fix"], flush=True)
            continue
        res = {}
        r = subprocess.run(["git", "-C", "/repo", "apply", os.path.abspath(os.path.join(d, "patch.diff"))], capture_output=True, text=True)
        if r.returncode != 0:
            res = {"error": "patch does not apply: " + r.stderr[-300:]}
        else:
            try:
                for chk in checks:
                    p = subprocess.run(["./check", chk, "--tier", "quick"], capture_output=True, text=True)
                    lines = [l for l in p.stdout.splitlines() if l.strip()]
                    verdict = "caught" if any(l.startswith("VIOLATION") for l in lines) else ("missed" if any(l.startswith("HELD") for l in lines) else "inconclusive")
                    res[chk] = {"exit": p.returncode, "verdict": verdict,
                                "classes": [l.strip() for l in lines if l.strip().startswith("rule=")][:6]}
            finally:
                subprocess.run(["git", "-C", "/repo", "checkout", "--", "."], check=True)
                subprocess.run(["git", "-C", "/repo", "clean", "-fdq"], check=True)
        meta["on_repo"] = res
        json.dump(meta, open(os.path.join(d, "meta.json"), "w"), indent=1)
        print(sid, json.dumps({k: (v["verdict"] if isinstance(v, dict) else v) for k, v in res.items()}), flush=True)
finally:
    for f in glob.glob(os.path.join(save, "*.json")):
        shutil.copy(f, "evidence/")
    shutil.rmtree(save, ignore_errors=True)
    subprocess.run(["git", "-C", "/repo", "checkout", "--", "."])
