#!/usr/bin/env python3
"""tools/seedeval.py <check id> <seed dir> <seed id> [--skip-confirm]
Confirms a seeded change (tools/seedconfirm.py), runs the check's quick tier against it
(tools/seedrun.sh), and stores it under /verif/seeded/<seed id>/ with meta.json."""
import json, os, shutil, subprocess, sys

prop, seed, sid = sys.argv[1], os.path.abspath(sys.argv[2]), sys.argv[3]
dst = os.path.join("/verif/seeded", sid)
conf = {"confirmed": None}
if "--skip-confirm" not in sys.argv:
    out = subprocess.run(["python3", "/verif/tools/seedconfirm.py", seed], capture_output=True, text=True).stdout
    try:
        conf = json.loads(out)
    except Exception:
        conf = {"confirmed": False, "error": out[-500:]}
env = dict(os.environ, SEEDRUN_LINES="40")
p = subprocess.run(["/verif/tools/seedrun.sh", prop, os.path.join(seed, "patch.diff")], capture_output=True, text=True, env=env)
lines = [l for l in p.stdout.splitlines() if l.strip()]
classes = [l.strip() for l in lines if l.strip().startswith("rule=")]
verdict = "caught" if any(l.startswith("VIOLATION") for l in lines) else ("missed" if any(l.startswith("HELD") for l in lines) else "inconclusive")
os.makedirs(dst, exist_ok=True)
prev = {}
try:
    prev = json.load(open(os.path.join(dst, "meta.json")))
except Exception:
    pass
for f in os.listdir(seed):
    if os.path.isfile(os.path.join(seed, f)) and not f.startswith("FOREIGN") and f != "suite.log":
        shutil.copy(os.path.join(seed, f), os.path.join(dst, f))
notes = ""
try:
    notes = open(os.path.join(seed, "notes.md")).read()
except OSError:
    pass
meta = {
    "property": prop if not prop[-1].isalpha() or prop in ("C05", "C14", "C01") else prop,
    "check_run": "./check %s --tier quick (through tools/seedrun.sh on a scratch worktree of /repo with patch.diff applied)" % prop,
    "needs_to_manifest": (notes.split("\n\n")[1] if notes.count("\n\n") > 1 else notes)[:1200],
    "confirmation": {k: conf.get(k) for k in ("confirmed", "patch_applies", "builds", "demo_without_patch_rc", "demo_with_patch_rc", "suite_ok", "suite_failed_packages", "demo_cmd", "error")},
    "verdict": verdict,
    "base": os.environ.get("SEEDRUN_BASE", "HEAD of /repo at evaluation time"),
    "violation_classes": classes[:20],
}
for k in ("caught_by", "note", "superseded_by_fix", "owner_property"):
    if prev.get(k):
        meta[k] = prev[k]
if "--skip-confirm" in sys.argv and prev.get("confirmation"):
    meta["confirmation"] = prev["confirmation"]
meta["history"] = prev.get("history", [])
if prev.get("verdict") and prev.get("verdict") != verdict:
    meta["history"].append({"verdict": prev["verdict"], "classes": prev.get("violation_classes", [])})
json.dump(meta, open(os.path.join(dst, "meta.json"), "w"), indent=1)
print(sid, "confirmed=%s" % conf.get("confirmed"), verdict, classes[:3])
