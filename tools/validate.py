#!/usr/bin/env python3-vt
import json,sys,glob,jsonschema
jsonschema.validate(json.load(open('/verif/MANIFEST.json')), json.load(open('/root/.vp/MANIFEST.schema.json')))
print("manifest ok")
s=json.load(open('/root/.vp/EVIDENCE.schema.json'))
for f in sorted(glob.glob('/verif/evidence/*.json')):
    try:
        jsonschema.validate(json.load(open(f)), s); print(f,"ok")
    except Exception as e:
        print(f,"INVALID",str(e)[:300])
