package task

// Reproducer for the roster lost-update (copy into core/task/ and run
//   go test -vet=off -count=1 -run TestRosterAppendLostDuringKill ./core/task/
// on the tree before the fix): doKillTasks pruned the roster with filtered() followed by
// updateTasks(), two critical sections; a task appended in between (a deployment of ANOTHER
// environment) vanished from the roster, its TASK_RUNNING was then ignored ("not in roster") and
// that environment's deployment timed out.  Witness from the whole-core simulation:
// findings/C04/roster-entry-lost-during-creation.witness.json

import (
	"fmt"
	"sync"
	"testing"
)

func TestRosterAppendLostDuringKill(t *testing.T) {
	m := &Manager{roster: newRoster()}
	const n = 20000
	var wg sync.WaitGroup
	stop := make(chan struct{})
	wg.Add(1)
	go func() {
		defer wg.Done()
		for {
			select {
			case <-stop:
				return
			default:
				m.doKillTasks(Tasks{}) // a kill/cleanup that concerns nobody
			}
		}
	}()
	for i := 0; i < n; i++ {
		m.roster.append(&Task{taskId: fmt.Sprintf("t%d", i)})
	}
	close(stop)
	wg.Wait()
	if got := len(m.roster.getTasks()); got != n {
		t.Fatalf("%d of %d appended tasks are left in the roster", got, n)
	}
}
